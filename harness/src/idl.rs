//! idl: binds spec/ThriftIdl.tla to `pilota_thrift_parser` (C15, C16).
//!
//! `run` (drive idl): every case is one document of the specification with its expected
//! descriptor (the explicit JSON form defined in ThriftIdl.tla, `Exp(doc)`) and a list of layouts,
//! each a list of string pieces.  The pieces are concatenated, `File::parse` is called, and the
//! parsed `File` is converted to the same JSON form by walking the descriptor structs (`file_json`).
//! Nothing is computed here that the specification states: the comparison is plain equality.
//!
//! `run_faults` (drive idl-faults): every case is a text; it is parsed on a thread with a fixed
//! 2 MiB stack.  A `{"start":id}` line is flushed before each case, so a stack overflow (which
//! kills the process) is attributed to that case by the Python side, which restarts behind it.
use std::io::{BufRead, BufReader, Write};

use pilota_thrift_parser::parser::Parser;
use pilota_thrift_parser::{
    Annotation, Annotations, Attribute, ConstValue, Constant, CppInclude, Enum, EnumValue, Exception, Field, File, Function, Include,
    Item, Namespace, Path, Service, Struct, StructLike, Ty, Type, Typedef, Union,
};
use serde_json::{json, Value};

// ------------------------------------------------------------------------------------------------
// descriptor -> explicit JSON (the same form as Exp(doc) of spec/ThriftIdl.tla).
// Every struct is destructured exhaustively, so a new descriptor field breaks the build here
// instead of being silently ignored.  Options are lists of length 0 or 1 (TLA+ has no null).

fn path_json(p: &Path) -> Value {
    let Path { segments } = p;
    json!(segments.iter().map(|s| s.0.to_string()).collect::<Vec<_>>().join("."))
}

fn ann_json(a: &Annotations) -> Value {
    let Annotations(v) = a;
    Value::Array(
        v.iter()
            .map(|a| {
                let Annotation { key, value } = a;
                json!({"key": key, "value": value.0})
            })
            .collect(),
    )
}

fn type_json(t: &Type) -> Value {
    let Type(ty, ann) = t;
    let mut o = match ty {
        Ty::String => json!({"t": "string"}),
        Ty::Void => json!({"t": "void"}),
        Ty::Byte => json!({"t": "byte"}),
        Ty::Bool => json!({"t": "bool"}),
        Ty::Binary => json!({"t": "binary"}),
        Ty::I8 => json!({"t": "i8"}),
        Ty::I16 => json!({"t": "i16"}),
        Ty::I32 => json!({"t": "i32"}),
        Ty::I64 => json!({"t": "i64"}),
        Ty::Double => json!({"t": "double"}),
        Ty::Uuid => json!({"t": "uuid"}),
        Ty::List { value, cpp_type } => with_cpp(json!({"t": "list", "v": type_json(value)}), cpp_type),
        Ty::Set { value, cpp_type } => with_cpp(json!({"t": "set", "v": type_json(value)}), cpp_type),
        Ty::Map { key, value, cpp_type } => with_cpp(json!({"t": "map", "k": type_json(key), "v": type_json(value)}), cpp_type),
        Ty::Path(p) => json!({"t": "path", "p": path_json(p)}),
    };
    if !ann.0.is_empty() {
        o["ann"] = ann_json(ann);
    }
    o
}

fn with_cpp(mut o: Value, c: &Option<pilota_thrift_parser::CppType>) -> Value {
    if let Some(pilota_thrift_parser::CppType(l)) = c {
        o["cpp"] = json!(l.0);
    }
    o
}

fn cv_json(c: &ConstValue) -> Value {
    match c {
        ConstValue::Bool(b) => json!({"bool": b}),
        ConstValue::Path(p) => json!({"path": path_json(p)}),
        ConstValue::String(l) => json!({"str": l.0}),
        ConstValue::Int(i) => json!({"int": i.0.to_string()}),
        ConstValue::Double(d) => json!({"double": &*d.0}),
        ConstValue::List(v) => json!({"list": v.iter().map(cv_json).collect::<Vec<_>>()}),
        ConstValue::Map(v) => json!({"map": v.iter().map(|(k, x)| json!([cv_json(k), cv_json(x)])).collect::<Vec<_>>()}),
    }
}

fn field_json(f: &Field) -> Value {
    let Field { id, name, attribute, ty, default, annotations } = f;
    let attr = match attribute {
        Attribute::Optional => "optional",
        Attribute::Required => "required",
        Attribute::Default => "default",
    };
    json!({"id": id, "attr": attr, "ty": type_json(ty), "name": &*name.0,
           "default": default.iter().map(cv_json).collect::<Vec<_>>(), "annotations": ann_json(annotations)})
}

fn structlike_json(s: &StructLike) -> Value {
    let StructLike { name, fields, annotations } = s;
    json!({"name": &*name.0, "fields": fields.iter().map(field_json).collect::<Vec<_>>(), "annotations": ann_json(annotations)})
}

fn function_json(f: &Function) -> Value {
    let Function { name, oneway, result_type, arguments, throws, annotations } = f;
    json!({"name": &*name.0, "oneway": oneway, "ret": type_json(result_type),
           "args": arguments.iter().map(field_json).collect::<Vec<_>>(),
           "throws": throws.iter().map(field_json).collect::<Vec<_>>(), "annotations": ann_json(annotations)})
}

fn item_json(i: &Item) -> Value {
    match i {
        Item::Include(Include { path }) => json!({"include": path.0}),
        Item::CppInclude(CppInclude(l)) => json!({"cpp_include": l.0}),
        Item::Namespace(Namespace { scope, name, annotations }) => json!({"namespace": {
            "scope": scope.0, "name": path_json(name),
            "annotations": annotations.iter().map(ann_json).collect::<Vec<_>>()}}),
        Item::Typedef(Typedef { r#type, alias, annotations }) => json!({"typedef": {
            "ty": type_json(r#type), "alias": &*alias.0, "annotations": ann_json(annotations)}}),
        Item::Constant(Constant { name, r#type, value, annotations }) => json!({"const": {
            "ty": type_json(r#type), "name": &*name.0, "value": cv_json(value), "annotations": ann_json(annotations)}}),
        Item::Enum(Enum { name, values, annotations }) => json!({"enum": {
            "name": &*name.0,
            "values": values.iter().map(|v| {
                let EnumValue { name, value, annotations } = v;
                json!({"name": &*name.0, "value": value.iter().map(|i| i.0.to_string()).collect::<Vec<_>>(), "annotations": ann_json(annotations)})
            }).collect::<Vec<_>>(),
            "annotations": ann_json(annotations)}}),
        Item::Struct(Struct(s)) => json!({"struct": structlike_json(s)}),
        Item::Union(Union(s)) => json!({"union": structlike_json(s)}),
        Item::Exception(Exception(s)) => json!({"exception": structlike_json(s)}),
        Item::Service(Service { name, extends, functions, annotations }) => json!({"service": {
            "name": &*name.0, "extends": extends.iter().map(path_json).collect::<Vec<_>>(),
            "functions": functions.iter().map(function_json).collect::<Vec<_>>(), "annotations": ann_json(annotations)}}),
    }
}

pub fn file_json(f: &File) -> Value {
    let File { path: _, package, items } = f;
    json!({"package": package.iter().map(path_json).collect::<Vec<_>>(), "items": items.iter().map(item_json).collect::<Vec<_>>()})
}

// ------------------------------------------------------------------------------------------------
pub enum Outcome {
    /// parsed; byte offset where the unparsed rest begins (== text.len() when everything was consumed)
    Ok { rest_at: usize, file: File },
    /// parse error; byte offset nom reports
    Err { at: usize, kind: String },
    Panic(String),
}

fn panic_msg(e: Box<dyn std::any::Any + Send>) -> String {
    if let Some(s) = e.downcast_ref::<String>() {
        s.clone()
    } else if let Some(s) = e.downcast_ref::<&str>() {
        s.to_string()
    } else {
        "panic".into()
    }
}

pub fn parse(text: &str) -> Outcome {
    let r = std::panic::catch_unwind(std::panic::AssertUnwindSafe(|| File::parse(text)));
    match r {
        Ok(Ok((rest, file))) => Outcome::Ok { rest_at: text.len() - rest.len(), file },
        Ok(Err(e)) => {
            // nom::Err<nom::error::Error<&str>>; taken apart through its methods so that the
            // harness does not need its own dependency on nom
            let (mut at, mut kind) = (text.len(), String::from("Incomplete"));
            let _ = e.map(|inner| {
                at = text.len() - inner.input.len();
                kind = format!("{:?}", inner.code);
            });
            Outcome::Err { at, kind }
        }
        Err(e) => Outcome::Panic(panic_msg(e)),
    }
}

fn is_blank_only(s: &str) -> bool {
    // what is left may only be white space (comments are blanks too, but a trailing comment that
    // was not consumed is exactly what C15 wants to see, so it is not excused here)
    s.chars().all(|c| c.is_whitespace())
}

fn first_diff(path: &str, want: &Value, got: &Value, out: &mut Vec<Value>) {
    if out.len() >= 6 {
        return;
    }
    match (want, got) {
        (Value::Object(a), Value::Object(b)) => {
            let mut keys: Vec<&String> = a.keys().chain(b.keys()).collect();
            keys.sort();
            keys.dedup();
            for k in keys {
                match (a.get(k), b.get(k)) {
                    (Some(x), Some(y)) => first_diff(&format!("{path}.{k}"), x, y, out),
                    (x, y) => out.push(json!({"path": format!("{path}.{k}"), "want": x, "got": y})),
                }
            }
        }
        (Value::Array(a), Value::Array(b)) => {
            for i in 0..a.len().max(b.len()) {
                match (a.get(i), b.get(i)) {
                    (Some(x), Some(y)) => first_diff(&format!("{path}[{i}]"), x, y, out),
                    (x, y) => out.push(json!({"path": format!("{path}[{i}]"), "want": x, "got": y})),
                }
            }
        }
        (x, y) => {
            if x != y {
                out.push(json!({"path": path, "want": x, "got": y}))
            }
        }
    }
}

/// drive idl <cases.ndjson> <out.ndjson>
pub fn run(path: &str, outp: &str) {
    let f = std::fs::File::open(path).unwrap_or_else(|e| panic!("open {path}: {e}"));
    let mut out = std::io::BufWriter::new(std::fs::File::create(outp).unwrap());
    let (mut docs, mut layouts, mut evals, mut mism, mut parsed_ok) = (0u64, 0u64, 0u64, 0u64, 0u64);
    let mut bytes = 0u64;
    for line in BufReader::new(f).lines() {
        let case: Value = crate::parse_json(&line.unwrap());
        if case.get("doc").is_none() {
            continue;
        }
        docs += 1;
        let doc = case["doc"].as_u64().unwrap();
        let want = &case["exp"];
        // Debug rendering of the first layout that parsed completely; every other layout of the
        // same document must render identically
        let mut reference: Option<(u64, String)> = None;
        for lay in case["layouts"].as_array().unwrap() {
            layouts += 1;
            let l = lay["l"].as_u64().unwrap();
            let text: String = lay["p"].as_array().unwrap().iter().map(|p| p.as_str().unwrap()).collect();
            bytes += text.len() as u64;
            let mut bad = |check: &str, detail: Value| {
                mism += 1;
                writeln!(out, "{}", json!({"kind": "mismatch", "doc": doc, "l": l, "check": check, "detail": detail, "text": text})).unwrap();
            };
            evals += 1;
            match parse(&text) {
                Outcome::Panic(m) => bad("panic", json!({"msg": m})),
                Outcome::Err { at, kind } => bad("parse-error", json!({"at": at, "code": kind})),
                Outcome::Ok { rest_at, file } => {
                    if !is_blank_only(&text[rest_at..]) {
                        bad("remaining", json!({"at": rest_at, "rest": text[rest_at..].chars().take(60).collect::<String>()}));
                        continue;
                    }
                    let got = file_json(&file);
                    evals += 1;
                    if &got != want {
                        let mut d = vec![];
                        first_diff("", want, &got, &mut d);
                        bad("mismatch", json!({"diffs": d, "got": got}));
                        continue;
                    }
                    parsed_ok += 1;
                    let dbg = format!("{:?} {:?}", file.package, file.items);
                    evals += 1;
                    match &reference {
                        None => reference = Some((l, dbg)),
                        Some((l0, d0)) => {
                            if *d0 != dbg {
                                bad("debug-dependence", json!({"reference_layout": l0, "reference": d0, "got": dbg}));
                            }
                        }
                    }
                }
            }
        }
    }
    writeln!(out, "{}", json!({"kind": "summary", "docs": docs, "layouts": layouts, "parsed_equal": parsed_ok, "bytes": bytes,
                               "evaluations": evals, "mismatches": mism})).unwrap();
    out.flush().unwrap();
}

// ------------------------------------------------------------------------------------------------
pub const FAULT_STACK: usize = 2 * 1024 * 1024;

/// drive idl-faults <cases.ndjson> <out.ndjson> [skip_to]
/// case: {"id": n, "p": [pieces]} or {"id": n, "text": "..."} or {"id": n, "bytes": [..]} (bytes
/// that are not UTF-8 cannot reach `File::parse(&str)`: reported as `not_utf8`, the caller of the
/// parser (`std::fs::read_to_string` in pilota-build) rejects them before the parser runs).
pub fn run_faults(path: &str, outp: &str, skip_to: u64) {
    // panics of the parser are data: remember where the last one happened (file:line of the panic site)
    static LAST_PANIC_AT: std::sync::Mutex<String> = std::sync::Mutex::new(String::new());
    std::panic::set_hook(Box::new(|info| {
        if let Some(l) = info.location() {
            if let Ok(mut g) = LAST_PANIC_AT.lock() {
                *g = format!("{}:{}", l.file(), l.line());
            }
        }
    }));
    let f = std::fs::File::open(path).unwrap_or_else(|e| panic!("open {path}: {e}"));
    let mut out = std::fs::File::create(outp).unwrap();
    let (mut n, mut ok, mut err, mut panics) = (0u64, 0u64, 0u64, 0u64);
    for line in BufReader::new(f).lines() {
        let line = line.unwrap();
        let case: Value = crate::parse_json(&line);
        let id = case["id"].as_u64().unwrap();
        if id < skip_to {
            continue;
        }
        let text: String = if let Some(u) = case.get("unit").and_then(|u| u.as_str()) {
            // long run: pre + unit x n + post
            format!("{}{}{}", case["pre"].as_str().unwrap(), u.repeat(case["n"].as_u64().unwrap() as usize), case["post"].as_str().unwrap())
        } else if let Some(p) = case.get("p").and_then(|p| p.as_array()) {
            p.iter().map(|p| p.as_str().unwrap()).collect()
        } else if let Some(t) = case.get("text").and_then(|t| t.as_str()) {
            t.to_string()
        } else {
            let b: Vec<u8> = case["bytes"].as_array().unwrap().iter().map(|x| x.as_u64().unwrap() as u8).collect();
            match String::from_utf8(b) {
                Ok(s) => s,
                Err(_) => {
                    writeln!(out, "{}", json!({"id": id, "res": "not_utf8"})).unwrap();
                    continue;
                }
            }
        };
        // one write per line, unbuffered: the line is in the file before the parser runs
        out.write_all(format!("{}\n", json!({"start": id})).as_bytes()).unwrap();
        n += 1;
        let (tx, rx) = std::sync::mpsc::channel();
        let h = std::thread::Builder::new()
            .stack_size(FAULT_STACK)
            .spawn(move || {
                let r = match parse(&text) {
                    Outcome::Ok { rest_at, .. } => json!({"res": "ok", "rest_at": rest_at, "len": text.len()}),
                    Outcome::Err { at, kind } => json!({"res": "err", "at": at, "code": kind}),
                    Outcome::Panic(m) => json!({"res": "panic", "msg": m, "loc": LAST_PANIC_AT.lock().map(|g| g.clone()).unwrap_or_default()}),
                };
                let _ = tx.send(r);
            })
            .unwrap();
        let mut r = match rx.recv_timeout(std::time::Duration::from_secs(10)) {
            Ok(r) => r,
            Err(_) => {
                out.write_all(format!("{}\n", json!({"id": id, "res": "hang"})).as_bytes()).unwrap();
                std::process::exit(3);
            }
        };
        let _ = h.join();
        match r["res"].as_str().unwrap() {
            "ok" => ok += 1,
            "err" => err += 1,
            _ => panics += 1,
        }
        r["id"] = json!(id);
        out.write_all(format!("{}\n", r).as_bytes()).unwrap();
    }
    out.write_all(format!("{}\n", json!({"kind": "summary", "cases": n, "ok": ok, "err": err, "panics": panics, "stack": FAULT_STACK})).as_bytes()).unwrap();
}
