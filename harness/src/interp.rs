//! Value interpreter for pilota's primitive Thrift API. Drives `TOutputProtocol::write_*`,
//! `TLengthProtocol::*_len` and `TInputProtocol::read_*` from a value tree, optionally logging one
//! event per call (op, arguments, bytes produced / consumed, returned value, projected protocol
//! state) for trace validation against the TLA+ model. Contains no codec knowledge.
use bytes::Bytes;
use faststr::FastStr;
use pilota::thrift::{
    TInputProtocol, TLengthProtocol, TListIdentifier, TMapIdentifier, TOutputProtocol, TSetIdentifier,
    TStructIdentifier, TType, ThriftException,
};
use serde_json::{json, Value};

use crate::tree::{bytes_json, limbs, Tree};

pub fn ttype(t: u8) -> TType {
    TType::try_from(t).unwrap_or_else(|_| panic!("harness: bad ttype {t}"))
}

static SID: TStructIdentifier = TStructIdentifier { name: "S" };

/// Observation of a writer: flattened output length / tail and (compact) private state.
pub trait WProbe {
    fn out_len(&mut self) -> usize;
    fn out_from(&mut self, from: usize) -> Vec<u8>;
    fn cstate(&self) -> Value {
        json!([])
    }
}
/// Observation of a reader: bytes consumed so far and (compact) private state.
pub trait RProbe {
    fn consumed(&mut self) -> usize;
    fn cstate(&self) -> Value {
        json!([])
    }
}

#[derive(Default)]
pub struct Ctx {
    /// rotates through the string/binary API variants
    pub mode: usize,
    pub log: Option<Vec<Value>>,
    pub pos: usize,
    /// all binary payloads of the input are valid UTF-8, so `read_string` may be used
    pub utf8_ok: bool,
}

impl Ctx {
    pub fn logging() -> Self {
        Ctx { mode: 0, log: Some(Vec::new()), pos: 0, utf8_ok: false }
    }
    fn next_mode(&mut self) -> usize {
        self.mode += 1;
        self.mode
    }
}

fn wlog<P: WProbe>(p: &mut P, c: &mut Ctx, mut ev: Value) {
    if c.log.is_some() {
        let out = p.out_from(c.pos);
        c.pos += out.len();
        ev["out"] = bytes_json(&out);
        ev["st"] = p.cstate();
        c.log.as_mut().unwrap().push(ev);
    }
}

pub fn write_tree<P: TOutputProtocol + WProbe>(p: &mut P, t: &Tree, c: &mut Ctx) -> Result<(), ThriftException> {
    match t {
        Tree::Bool(b) => {
            p.write_bool(*b)?;
            wlog(p, c, json!({"op":"w_bool","b": if *b {1} else {0}}));
        }
        Tree::I8(x) => {
            if c.next_mode() % 2 == 0 {
                p.write_i8(*x)?;
            } else {
                p.write_byte(*x as u8)?;
            }
            wlog(p, c, json!({"op":"w_i8","v":[*x as u8]}));
        }
        Tree::I16(x) => {
            p.write_i16(*x)?;
            wlog(p, c, json!({"op":"w_i16","v":limbs(*x as u16 as u64, 1)}));
        }
        Tree::I32(x) => {
            p.write_i32(*x)?;
            wlog(p, c, json!({"op":"w_i32","v":limbs(*x as u32 as u64, 2)}));
        }
        Tree::I64(x) => {
            p.write_i64(*x)?;
            wlog(p, c, json!({"op":"w_i64","v":limbs(*x as u64, 4)}));
        }
        Tree::Double(bits) => {
            p.write_double(f64::from_bits(*bits))?;
            wlog(p, c, json!({"op":"w_double","v":bytes_json(&bits.to_be_bytes())}));
        }
        Tree::Uuid(u) => {
            p.write_uuid(*u)?;
            wlog(p, c, json!({"op":"w_uuid","v":bytes_json(u)}));
        }
        Tree::Binary(b) => {
            let api = if c.next_mode() % 2 == 0 {
                p.write_bytes(Bytes::copy_from_slice(b))?;
                "bytes"
            } else {
                p.write_bytes_vec(b)?;
                "vec"
            };
            wlog(p, c, json!({"op":"w_binary","api":api,"v":bytes_json(b)}));
        }
        Tree::Str(b) => {
            let s = std::str::from_utf8(b).expect("harness: vectors hold valid utf-8 strings");
            let api = if c.next_mode() % 2 == 0 {
                p.write_string(s)?;
                "str"
            } else {
                p.write_faststr(FastStr::new(s))?;
                "faststr"
            };
            wlog(p, c, json!({"op":"w_binary","api":api,"v":bytes_json(b)}));
        }
        Tree::Struct(fs) => {
            p.write_struct_begin(&SID)?;
            wlog(p, c, json!({"op":"w_struct_begin"}));
            for (id, x) in fs {
                p.write_field_begin(ttype(x.ttype()), *id)?;
                wlog(p, c, json!({"op":"w_field_begin","t":x.ttype(),"id":*id}));
                write_tree(p, x, c)?;
                p.write_field_end()?;
                wlog(p, c, json!({"op":"w_field_end"}));
            }
            p.write_field_stop()?;
            wlog(p, c, json!({"op":"w_field_stop"}));
            p.write_struct_end()?;
            wlog(p, c, json!({"op":"w_struct_end"}));
        }
        Tree::List(et, es) => {
            p.write_list_begin(TListIdentifier { element_type: ttype(*et), size: es.len() })?;
            wlog(p, c, json!({"op":"w_list_begin","t":*et,"n":es.len()}));
            for x in es {
                write_tree(p, x, c)?;
            }
            p.write_list_end()?;
            wlog(p, c, json!({"op":"w_list_end"}));
        }
        Tree::Set(et, es) => {
            p.write_set_begin(TSetIdentifier { element_type: ttype(*et), size: es.len() })?;
            wlog(p, c, json!({"op":"w_set_begin","t":*et,"n":es.len()}));
            for x in es {
                write_tree(p, x, c)?;
            }
            p.write_set_end()?;
            wlog(p, c, json!({"op":"w_set_end"}));
        }
        Tree::Map(kt, vt, kvs) => {
            p.write_map_begin(TMapIdentifier { key_type: ttype(*kt), value_type: ttype(*vt), size: kvs.len() })?;
            wlog(p, c, json!({"op":"w_map_begin","kt":*kt,"vt":*vt,"n":kvs.len()}));
            for (k, v) in kvs {
                write_tree(p, k, c)?;
                write_tree(p, v, c)?;
            }
            p.write_map_end()?;
            wlog(p, c, json!({"op":"w_map_end"}));
        }
    }
    Ok(())
}

fn llog<P: WProbe>(p: &mut P, c: &mut Ctx, mut ev: Value, ret: usize) {
    if c.log.is_some() {
        ev["ret"] = json!(ret);
        ev["st"] = p.cstate();
        c.log.as_mut().unwrap().push(ev);
    }
}

/// The length pass, call for call the mirror of `write_tree`.
pub fn len_tree<P: TLengthProtocol + WProbe>(p: &mut P, t: &Tree, c: &mut Ctx) -> usize {
    let mut n = 0usize;
    macro_rules! step {
        ($call:expr, $ev:expr) => {{
            let r = $call;
            llog(p, c, $ev, r);
            n += r;
        }};
    }
    match t {
        Tree::Bool(b) => step!(p.bool_len(*b), json!({"op":"l_bool","b": if *b {1} else {0}})),
        Tree::I8(x) => {
            if c.next_mode() % 2 == 0 {
                step!(p.i8_len(*x), json!({"op":"l_i8","v":[*x as u8]}))
            } else {
                step!(p.byte_len(*x as u8), json!({"op":"l_i8","v":[*x as u8]}))
            }
        }
        Tree::I16(x) => step!(p.i16_len(*x), json!({"op":"l_i16","v":limbs(*x as u16 as u64, 1)})),
        Tree::I32(x) => step!(p.i32_len(*x), json!({"op":"l_i32","v":limbs(*x as u32 as u64, 2)})),
        Tree::I64(x) => step!(p.i64_len(*x), json!({"op":"l_i64","v":limbs(*x as u64, 4)})),
        Tree::Double(bits) => step!(p.double_len(f64::from_bits(*bits)), json!({"op":"l_double","v":bytes_json(&bits.to_be_bytes())})),
        Tree::Uuid(u) => step!(p.uuid_len(*u), json!({"op":"l_uuid","v":bytes_json(u)})),
        Tree::Binary(b) => {
            if c.next_mode() % 2 == 0 {
                step!(p.bytes_len(b), json!({"op":"l_binary","n":b.len()}))
            } else {
                step!(p.bytes_vec_len(b), json!({"op":"l_binary","n":b.len()}))
            }
        }
        Tree::Str(b) => {
            let s = std::str::from_utf8(b).expect("utf-8");
            if c.next_mode() % 2 == 0 {
                step!(p.string_len(s), json!({"op":"l_binary","n":b.len()}))
            } else {
                step!(p.faststr_len(&FastStr::new(s)), json!({"op":"l_binary","n":b.len()}))
            }
        }
        Tree::Struct(fs) => {
            step!(p.struct_begin_len(&SID), json!({"op":"l_struct_begin"}));
            for (id, x) in fs {
                step!(p.field_begin_len(ttype(x.ttype()), Some(*id)), json!({"op":"l_field_begin","t":x.ttype(),"id":*id}));
                let r = len_tree(p, x, c);
                n += r;
                step!(p.field_end_len(), json!({"op":"l_field_end"}));
            }
            step!(p.field_stop_len(), json!({"op":"l_field_stop"}));
            step!(p.struct_end_len(), json!({"op":"l_struct_end"}));
        }
        Tree::List(et, es) => {
            step!(p.list_begin_len(TListIdentifier { element_type: ttype(*et), size: es.len() }), json!({"op":"l_list_begin","t":*et,"n":es.len()}));
            for x in es {
                n += len_tree(p, x, c);
            }
            step!(p.list_end_len(), json!({"op":"l_list_end"}));
        }
        Tree::Set(et, es) => {
            step!(p.set_begin_len(TSetIdentifier { element_type: ttype(*et), size: es.len() }), json!({"op":"l_set_begin","t":*et,"n":es.len()}));
            for x in es {
                n += len_tree(p, x, c);
            }
            step!(p.set_end_len(), json!({"op":"l_set_end"}));
        }
        Tree::Map(kt, vt, kvs) => {
            step!(
                p.map_begin_len(TMapIdentifier { key_type: ttype(*kt), value_type: ttype(*vt), size: kvs.len() }),
                json!({"op":"l_map_begin","kt":*kt,"vt":*vt,"n":kvs.len()})
            );
            for (k, v) in kvs {
                n += len_tree(p, k, c);
                n += len_tree(p, v, c);
            }
            step!(p.map_end_len(), json!({"op":"l_map_end"}));
        }
    }
    n
}

fn rlog<P: RProbe>(p: &mut P, c: &mut Ctx, mut ev: Value) {
    if c.log.is_some() {
        let now = p.consumed();
        ev["n"] = json!(now - c.pos);
        c.pos = now;
        ev["st"] = p.cstate();
        c.log.as_mut().unwrap().push(ev);
    }
}

/// Schema-less read of one value of wire type `t`.
pub fn read_tree<P: TInputProtocol + RProbe>(p: &mut P, t: u8, c: &mut Ctx) -> Result<Tree, ThriftException> {
    Ok(match t {
        2 => {
            let b = p.read_bool()?;
            rlog(p, c, json!({"op":"r_bool","b": if b {1} else {0}}));
            Tree::Bool(b)
        }
        3 => {
            let x = if c.next_mode() % 2 == 0 { p.read_i8()? } else { p.read_byte()? as i8 };
            rlog(p, c, json!({"op":"r_i8","v":[x as u8]}));
            Tree::I8(x)
        }
        6 => {
            let x = p.read_i16()?;
            rlog(p, c, json!({"op":"r_i16","v":limbs(x as u16 as u64, 1)}));
            Tree::I16(x)
        }
        8 => {
            let x = p.read_i32()?;
            rlog(p, c, json!({"op":"r_i32","v":limbs(x as u32 as u64, 2)}));
            Tree::I32(x)
        }
        10 => {
            let x = p.read_i64()?;
            rlog(p, c, json!({"op":"r_i64","v":limbs(x as u64, 4)}));
            Tree::I64(x)
        }
        4 => {
            let x = p.read_double()?.to_bits();
            rlog(p, c, json!({"op":"r_double","v":bytes_json(&x.to_be_bytes())}));
            Tree::Double(x)
        }
        16 => {
            let u = p.read_uuid()?;
            rlog(p, c, json!({"op":"r_uuid","v":bytes_json(&u)}));
            Tree::Uuid(u)
        }
        11 => {
            let (api, b): (&str, Vec<u8>) = match c.next_mode() % 4 {
                0 => ("bytes", p.read_bytes()?.to_vec()),
                1 => ("vec", p.read_bytes_vec()?),
                2 => ("faststr", p.read_faststr()?.as_bytes().to_vec()),
                _ => {
                    // read_string requires valid UTF-8 (the unchecked reader does not validate)
                    if c.utf8_ok {
                        ("str", p.read_string()?.into_bytes())
                    } else {
                        ("bytes", p.read_bytes()?.to_vec())
                    }
                }
            };
            rlog(p, c, json!({"op":"r_binary","api":api,"v":bytes_json(&b)}));
            Tree::Binary(b)
        }
        12 => {
            p.read_struct_begin()?;
            rlog(p, c, json!({"op":"r_struct_begin"}));
            let mut fs = Vec::new();
            loop {
                let f = p.read_field_begin()?;
                if f.field_type == TType::Stop {
                    rlog(p, c, json!({"op":"r_field_stop"}));
                    break;
                }
                let id = f.id.expect("non-stop field has an id");
                rlog(p, c, json!({"op":"r_field_begin","t":f.field_type as u8,"id":id}));
                let x = read_tree(p, f.field_type as u8, c)?;
                p.read_field_end()?;
                rlog(p, c, json!({"op":"r_field_end"}));
                fs.push((id, x));
            }
            p.read_struct_end()?;
            rlog(p, c, json!({"op":"r_struct_end"}));
            Tree::Struct(fs)
        }
        15 | 14 => {
            let (et, n) = if t == 15 {
                let i = p.read_list_begin()?;
                (i.element_type as u8, i.size)
            } else {
                let i = p.read_set_begin()?;
                (i.element_type as u8, i.size)
            };
            rlog(p, c, json!({"op": if t == 15 {"r_list_begin"} else {"r_set_begin"},"t":et,"cnt":n}));
            let mut es = Vec::new();
            for _ in 0..n {
                es.push(read_tree(p, et, c)?);
            }
            if t == 15 {
                p.read_list_end()?;
                rlog(p, c, json!({"op":"r_list_end"}));
                Tree::List(et, es)
            } else {
                p.read_set_end()?;
                rlog(p, c, json!({"op":"r_set_end"}));
                Tree::Set(et, es)
            }
        }
        13 => {
            let i = p.read_map_begin()?;
            let (kt, vt, n) = (i.key_type as u8, i.value_type as u8, i.size);
            rlog(p, c, json!({"op":"r_map_begin","kt":kt,"vt":vt,"cnt":n}));
            let mut kvs = Vec::new();
            for _ in 0..n {
                let k = read_tree(p, kt, c)?;
                let v = read_tree(p, vt, c)?;
                kvs.push((k, v));
            }
            p.read_map_end()?;
            rlog(p, c, json!({"op":"r_map_end"}));
            Tree::Map(kt, vt, kvs)
        }
        _ => {
            // a wire type that is not a value type (void): the only thing a reader can do is skip it
            p.skip(ttype(t))?;
            return Err(pilota::thrift::new_protocol_exception(
                pilota::thrift::ProtocolExceptionKind::InvalidData,
                "harness: skipped a value of a non-value type",
            ));
        }
    })
}
