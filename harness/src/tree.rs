//! Value trees shared with the TLA+ specification (DESIGN.md appendix A). Plumbing only:
//! no codec logic lives here.
use serde_json::{json, Value};

#[derive(Clone, Debug, PartialEq)]
pub enum Tree {
    Bool(bool),
    I8(i8),
    I16(i16),
    I32(i32),
    I64(i64),
    /// IEEE bits
    Double(u64),
    Binary(Vec<u8>),
    Str(Vec<u8>),
    Uuid([u8; 16]),
    Struct(Vec<(i16, Tree)>),
    List(u8, Vec<Tree>),
    Set(u8, Vec<Tree>),
    Map(u8, u8, Vec<(Tree, Tree)>),
}

pub fn limbs(x: u64, n: usize) -> Value {
    Value::Array((0..n).map(|i| json!(((x >> (16 * i)) & 0xffff) as u32)).collect())
}
pub fn from_limbs(v: &Value) -> u64 {
    let a = v.as_array().expect("limbs");
    let mut x = 0u64;
    for (i, l) in a.iter().enumerate() {
        x |= (l.as_u64().expect("limb") & 0xffff) << (16 * i);
    }
    x
}
pub fn bytes_json(b: &[u8]) -> Value {
    Value::Array(b.iter().map(|x| json!(*x)).collect())
}
pub fn json_bytes(v: &Value) -> Vec<u8> {
    match v {
        Value::Array(a) => a.iter().map(|x| x.as_u64().expect("byte") as u8).collect(),
        // TLC serialises the empty sequence as an empty array, but be liberal
        Value::Object(o) if o.is_empty() => vec![],
        // run-length form for nesting probes: head ++ pre^n ++ core ++ suf^n ++ tail
        Value::Object(o) if o.contains_key("n") => {
            let part = |k: &str| o.get(k).map(json_bytes).unwrap_or_default();
            let n = o["n"].as_u64().expect("n") as usize;
            let mut out = part("head");
            let (pre, suf) = (part("pre"), part("suf"));
            for _ in 0..n {
                out.extend_from_slice(&pre);
            }
            out.extend(part("core"));
            for _ in 0..n {
                out.extend_from_slice(&suf);
            }
            out.extend(part("tail"));
            out
        }
        Value::Null => vec![],
        _ => panic!("bytes expected, got {v}"),
    }
}
fn json_seq(v: &Value) -> Vec<Value> {
    match v {
        Value::Array(a) => a.clone(),
        Value::Object(o) if o.is_empty() => vec![],
        Value::Null => vec![],
        _ => panic!("sequence expected, got {v}"),
    }
}

impl Tree {
    pub fn ttype(&self) -> u8 {
        match self {
            Tree::Bool(_) => 2,
            Tree::I8(_) => 3,
            Tree::Double(_) => 4,
            Tree::I16(_) => 6,
            Tree::I32(_) => 8,
            Tree::I64(_) => 10,
            Tree::Binary(_) | Tree::Str(_) => 11,
            Tree::Struct(_) => 12,
            Tree::Map(..) => 13,
            Tree::Set(..) => 14,
            Tree::List(..) => 15,
            Tree::Uuid(_) => 16,
        }
    }

    pub fn to_json(&self) -> Value {
        match self {
            Tree::Bool(b) => json!({"k":"bool","v":[if *b {1} else {0}]}),
            Tree::I8(x) => json!({"k":"i8","v":[*x as u8]}),
            Tree::I16(x) => json!({"k":"i16","v":limbs(*x as u16 as u64, 1)}),
            Tree::I32(x) => json!({"k":"i32","v":limbs(*x as u32 as u64, 2)}),
            Tree::I64(x) => json!({"k":"i64","v":limbs(*x as u64, 4)}),
            Tree::Double(bits) => json!({"k":"double","v":bytes_json(&bits.to_be_bytes())}),
            Tree::Binary(b) => json!({"k":"binary","v":bytes_json(b)}),
            Tree::Str(b) => json!({"k":"string","v":bytes_json(b)}),
            Tree::Uuid(u) => json!({"k":"uuid","v":bytes_json(u)}),
            Tree::Struct(fs) => json!({"k":"struct","fs": fs.iter().map(|(id, x)| json!({"id": *id, "x": x.to_json()})).collect::<Vec<_>>()}),
            Tree::List(et, es) => json!({"k":"list","et":*et,"es": es.iter().map(|x| x.to_json()).collect::<Vec<_>>()}),
            Tree::Set(et, es) => json!({"k":"set","et":*et,"es": es.iter().map(|x| x.to_json()).collect::<Vec<_>>()}),
            Tree::Map(kt, vt, kvs) => json!({"k":"map","kt":*kt,"vt":*vt,"kvs": kvs.iter().map(|(k, v)| json!([k.to_json(), v.to_json()])).collect::<Vec<_>>()}),
        }
    }

    pub fn from_json(v: &Value) -> Tree {
        let k = v["k"].as_str().expect("kind");
        match k {
            "bool" => Tree::Bool(json_bytes(&v["v"])[0] != 0),
            "i8" => Tree::I8(json_bytes(&v["v"])[0] as i8),
            "i16" => Tree::I16(from_limbs(&v["v"]) as u16 as i16),
            "i32" => Tree::I32(from_limbs(&v["v"]) as u32 as i32),
            "i64" => Tree::I64(from_limbs(&v["v"]) as i64),
            "double" => {
                let b = json_bytes(&v["v"]);
                let mut a = [0u8; 8];
                a.copy_from_slice(&b);
                Tree::Double(u64::from_be_bytes(a))
            }
            "binary" => Tree::Binary(json_bytes(&v["v"])),
            "string" => Tree::Str(json_bytes(&v["v"])),
            "uuid" => {
                let b = json_bytes(&v["v"]);
                let mut a = [0u8; 16];
                a.copy_from_slice(&b);
                Tree::Uuid(a)
            }
            "struct" => Tree::Struct(
                json_seq(&v["fs"])
                    .iter()
                    .map(|f| (f["id"].as_i64().expect("id") as i16, Tree::from_json(&f["x"])))
                    .collect(),
            ),
            "list" => Tree::List(v["et"].as_u64().unwrap() as u8, json_seq(&v["es"]).iter().map(Tree::from_json).collect()),
            "set" => Tree::Set(v["et"].as_u64().unwrap() as u8, json_seq(&v["es"]).iter().map(Tree::from_json).collect()),
            "map" => Tree::Map(
                v["kt"].as_u64().unwrap() as u8,
                v["vt"].as_u64().unwrap() as u8,
                json_seq(&v["kvs"])
                    .iter()
                    .map(|p| {
                        let p = json_seq(p);
                        (Tree::from_json(&p[0]), Tree::from_json(&p[1]))
                    })
                    .collect(),
            ),
            _ => panic!("unknown tree kind {k}"),
        }
    }

    /// What a schema-less decoder can recover: string == binary on the wire; `compact` additionally
    /// loses the key/value types of an empty map (they are not transmitted).
    pub fn erase(&self, compact: bool) -> Tree {
        match self {
            Tree::Str(b) => Tree::Binary(b.clone()),
            Tree::Struct(fs) => Tree::Struct(fs.iter().map(|(i, x)| (*i, x.erase(compact))).collect()),
            Tree::List(t, es) => Tree::List(*t, es.iter().map(|x| x.erase(compact)).collect()),
            Tree::Set(t, es) => Tree::Set(*t, es.iter().map(|x| x.erase(compact)).collect()),
            Tree::Map(kt, vt, kvs) => {
                if compact && kvs.is_empty() {
                    Tree::Map(0, 0, vec![])
                } else {
                    Tree::Map(*kt, *vt, kvs.iter().map(|(k, v)| (k.erase(compact), v.erase(compact))).collect())
                }
            }
            x => x.clone(),
        }
    }

    pub fn depth(&self) -> usize {
        match self {
            Tree::Struct(fs) => 1 + fs.iter().map(|(_, x)| x.depth()).max().unwrap_or(0),
            Tree::List(_, es) | Tree::Set(_, es) => 1 + es.iter().map(|x| x.depth()).max().unwrap_or(0),
            Tree::Map(_, _, kvs) => 1 + kvs.iter().map(|(k, v)| k.depth().max(v.depth())).max().unwrap_or(0),
            _ => 0,
        }
    }
}
