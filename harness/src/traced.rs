//! `TracedW<P>`: a TOutputProtocol / TLengthProtocol that delegates every call to the real protocol object
//! and logs one event per call, in exactly the format `interp.rs` logs when the harness itself drives the
//! protocol. Handing it to GENERATED `encode` / `size` turns the emitted code's call sequence into a trace
//! that spec/ThriftTrace.tla validates call by call (bytes appended, length returned, private state).
use bytes::Bytes;
use faststr::FastStr;
use pilota::thrift::{
    TFieldIdentifier, TLengthProtocol, TListIdentifier, TMapIdentifier, TMessageIdentifier, TOutputProtocol, TSetIdentifier,
    TStructIdentifier, TType, ThriftException,
};
use serde_json::{json, Value};

use crate::interp::WProbe;
use crate::tree::{bytes_json, limbs};

pub struct TracedW<P> {
    pub inner: P,
    pub log: Vec<Value>,
    pos: usize,
    /// calls the trace specification has no action for (none are expected from emitted code)
    pub unmodelled: Vec<String>,
}

impl<P: TOutputProtocol + WProbe> TracedW<P> {
    pub fn new(inner: P) -> Self {
        let mut t = TracedW { inner, log: vec![], pos: 0, unmodelled: vec![] };
        let st = t.inner.cstate();
        t.log.push(json!({"op":"init","st":st}));
        t
    }
    fn w(&mut self, mut ev: Value) {
        let out = self.inner.out_from(self.pos);
        self.pos += out.len();
        ev["out"] = bytes_json(&out);
        ev["st"] = self.inner.cstate();
        self.log.push(ev);
    }
    fn l(&mut self, mut ev: Value, ret: usize) -> usize {
        ev["ret"] = json!(ret);
        ev["st"] = self.inner.cstate();
        self.log.push(ev);
        ret
    }
}

fn f64_bytes(d: f64) -> Value {
    bytes_json(&d.to_bits().to_be_bytes())
}

impl<P: TOutputProtocol + WProbe> TLengthProtocol for TracedW<P> {
    fn message_begin_len(&mut self, identifier: &TMessageIdentifier) -> usize {
        self.unmodelled.push("message_begin_len".into());
        self.inner.message_begin_len(identifier)
    }
    fn message_end_len(&mut self) -> usize {
        self.inner.message_end_len()
    }
    fn struct_begin_len(&mut self, identifier: &TStructIdentifier) -> usize {
        let r = self.inner.struct_begin_len(identifier);
        self.l(json!({"op":"l_struct_begin"}), r)
    }
    fn struct_end_len(&mut self) -> usize {
        let r = self.inner.struct_end_len();
        self.l(json!({"op":"l_struct_end"}), r)
    }
    fn field_begin_len(&mut self, field_type: TType, id: Option<i16>) -> usize {
        let r = self.inner.field_begin_len(field_type, id);
        match id {
            Some(id) => self.l(json!({"op":"l_field_begin","t":field_type as u8,"id":id}), r),
            None => {
                self.unmodelled.push("field_begin_len(None)".into());
                r
            }
        }
    }
    fn field_end_len(&mut self) -> usize {
        let r = self.inner.field_end_len();
        self.l(json!({"op":"l_field_end"}), r)
    }
    fn field_stop_len(&mut self) -> usize {
        let r = self.inner.field_stop_len();
        self.l(json!({"op":"l_field_stop"}), r)
    }
    fn bool_len(&mut self, b: bool) -> usize {
        let r = self.inner.bool_len(b);
        self.l(json!({"op":"l_bool","b": if b {1} else {0}}), r)
    }
    fn bytes_len(&mut self, b: &[u8]) -> usize {
        let r = self.inner.bytes_len(b);
        self.l(json!({"op":"l_binary","n":b.len()}), r)
    }
    fn bytes_vec_len(&mut self, b: &[u8]) -> usize {
        let r = self.inner.bytes_vec_len(b);
        self.l(json!({"op":"l_binary","n":b.len()}), r)
    }
    fn byte_len(&mut self, b: u8) -> usize {
        let r = self.inner.byte_len(b);
        self.l(json!({"op":"l_i8","v":[b]}), r)
    }
    fn uuid_len(&mut self, u: [u8; 16]) -> usize {
        let r = self.inner.uuid_len(u);
        self.l(json!({"op":"l_uuid","v":bytes_json(&u)}), r)
    }
    fn i8_len(&mut self, i: i8) -> usize {
        let r = self.inner.i8_len(i);
        self.l(json!({"op":"l_i8","v":[i as u8]}), r)
    }
    fn i16_len(&mut self, i: i16) -> usize {
        let r = self.inner.i16_len(i);
        self.l(json!({"op":"l_i16","v":limbs(i as u16 as u64, 1)}), r)
    }
    fn i32_len(&mut self, i: i32) -> usize {
        let r = self.inner.i32_len(i);
        self.l(json!({"op":"l_i32","v":limbs(i as u32 as u64, 2)}), r)
    }
    fn i64_len(&mut self, i: i64) -> usize {
        let r = self.inner.i64_len(i);
        self.l(json!({"op":"l_i64","v":limbs(i as u64, 4)}), r)
    }
    fn double_len(&mut self, d: f64) -> usize {
        let r = self.inner.double_len(d);
        self.l(json!({"op":"l_double","v":f64_bytes(d)}), r)
    }
    fn string_len(&mut self, s: &str) -> usize {
        let r = self.inner.string_len(s);
        self.l(json!({"op":"l_binary","n":s.len()}), r)
    }
    fn faststr_len(&mut self, s: &FastStr) -> usize {
        let r = self.inner.faststr_len(s);
        self.l(json!({"op":"l_binary","n":s.len()}), r)
    }
    fn list_begin_len(&mut self, identifier: TListIdentifier) -> usize {
        let r = self.inner.list_begin_len(identifier);
        self.l(json!({"op":"l_list_begin","t":identifier.element_type as u8,"n":identifier.size}), r)
    }
    fn list_end_len(&mut self) -> usize {
        let r = self.inner.list_end_len();
        self.l(json!({"op":"l_list_end"}), r)
    }
    fn set_begin_len(&mut self, identifier: TSetIdentifier) -> usize {
        let r = self.inner.set_begin_len(identifier);
        self.l(json!({"op":"l_set_begin","t":identifier.element_type as u8,"n":identifier.size}), r)
    }
    fn set_end_len(&mut self) -> usize {
        let r = self.inner.set_end_len();
        self.l(json!({"op":"l_set_end"}), r)
    }
    fn map_begin_len(&mut self, identifier: TMapIdentifier) -> usize {
        let r = self.inner.map_begin_len(identifier);
        self.l(json!({"op":"l_map_begin","kt":identifier.key_type as u8,"vt":identifier.value_type as u8,"n":identifier.size}), r)
    }
    fn map_end_len(&mut self) -> usize {
        let r = self.inner.map_end_len();
        self.l(json!({"op":"l_map_end"}), r)
    }
    fn zero_copy_len(&mut self) -> usize {
        self.inner.zero_copy_len()
    }
    fn reset(&mut self) {
        self.inner.reset()
    }
}

impl<P: TOutputProtocol + WProbe> TOutputProtocol for TracedW<P> {
    type BufMut = P::BufMut;

    fn write_message_begin(&mut self, identifier: &TMessageIdentifier) -> Result<(), ThriftException> {
        self.unmodelled.push("write_message_begin".into());
        self.inner.write_message_begin(identifier)
    }
    fn write_message_end(&mut self) -> Result<(), ThriftException> {
        self.inner.write_message_end()
    }
    fn write_struct_begin(&mut self, identifier: &TStructIdentifier) -> Result<(), ThriftException> {
        self.inner.write_struct_begin(identifier)?;
        self.w(json!({"op":"w_struct_begin"}));
        Ok(())
    }
    fn write_struct_end(&mut self) -> Result<(), ThriftException> {
        self.inner.write_struct_end()?;
        self.w(json!({"op":"w_struct_end"}));
        Ok(())
    }
    fn write_field_begin(&mut self, field_type: TType, id: i16) -> Result<(), ThriftException> {
        self.inner.write_field_begin(field_type, id)?;
        self.w(json!({"op":"w_field_begin","t":field_type as u8,"id":id}));
        Ok(())
    }
    fn write_field_end(&mut self) -> Result<(), ThriftException> {
        self.inner.write_field_end()?;
        self.w(json!({"op":"w_field_end"}));
        Ok(())
    }
    fn write_field_stop(&mut self) -> Result<(), ThriftException> {
        self.inner.write_field_stop()?;
        self.w(json!({"op":"w_field_stop"}));
        Ok(())
    }
    fn write_bool(&mut self, b: bool) -> Result<(), ThriftException> {
        self.inner.write_bool(b)?;
        self.w(json!({"op":"w_bool","b": if b {1} else {0}}));
        Ok(())
    }
    fn write_bytes(&mut self, b: Bytes) -> Result<(), ThriftException> {
        let v = bytes_json(&b);
        self.inner.write_bytes(b)?;
        self.w(json!({"op":"w_binary","api":"bytes","v":v}));
        Ok(())
    }
    fn write_bytes_without_len(&mut self, b: Bytes) -> Result<(), ThriftException> {
        let v = bytes_json(&b);
        self.inner.write_bytes_without_len(b)?;
        self.w(json!({"op":"w_raw","v":v}));
        Ok(())
    }
    fn write_uuid(&mut self, u: [u8; 16]) -> Result<(), ThriftException> {
        self.inner.write_uuid(u)?;
        self.w(json!({"op":"w_uuid","v":bytes_json(&u)}));
        Ok(())
    }
    fn write_bytes_vec(&mut self, b: &[u8]) -> Result<(), ThriftException> {
        self.inner.write_bytes_vec(b)?;
        self.w(json!({"op":"w_binary","api":"vec","v":bytes_json(b)}));
        Ok(())
    }
    fn write_byte(&mut self, b: u8) -> Result<(), ThriftException> {
        self.inner.write_byte(b)?;
        self.w(json!({"op":"w_i8","v":[b]}));
        Ok(())
    }
    fn write_i8(&mut self, i: i8) -> Result<(), ThriftException> {
        self.inner.write_i8(i)?;
        self.w(json!({"op":"w_i8","v":[i as u8]}));
        Ok(())
    }
    fn write_i16(&mut self, i: i16) -> Result<(), ThriftException> {
        self.inner.write_i16(i)?;
        self.w(json!({"op":"w_i16","v":limbs(i as u16 as u64, 1)}));
        Ok(())
    }
    fn write_i32(&mut self, i: i32) -> Result<(), ThriftException> {
        self.inner.write_i32(i)?;
        self.w(json!({"op":"w_i32","v":limbs(i as u32 as u64, 2)}));
        Ok(())
    }
    fn write_i64(&mut self, i: i64) -> Result<(), ThriftException> {
        self.inner.write_i64(i)?;
        self.w(json!({"op":"w_i64","v":limbs(i as u64, 4)}));
        Ok(())
    }
    fn write_double(&mut self, d: f64) -> Result<(), ThriftException> {
        self.inner.write_double(d)?;
        self.w(json!({"op":"w_double","v":f64_bytes(d)}));
        Ok(())
    }
    fn write_string(&mut self, s: &str) -> Result<(), ThriftException> {
        self.inner.write_string(s)?;
        self.w(json!({"op":"w_binary","api":"str","v":bytes_json(s.as_bytes())}));
        Ok(())
    }
    fn write_faststr(&mut self, s: FastStr) -> Result<(), ThriftException> {
        let v = bytes_json(s.as_bytes());
        self.inner.write_faststr(s)?;
        self.w(json!({"op":"w_binary","api":"faststr","v":v}));
        Ok(())
    }
    fn write_list_begin(&mut self, identifier: TListIdentifier) -> Result<(), ThriftException> {
        self.inner.write_list_begin(identifier)?;
        self.w(json!({"op":"w_list_begin","t":identifier.element_type as u8,"n":identifier.size}));
        Ok(())
    }
    fn write_list_end(&mut self) -> Result<(), ThriftException> {
        self.inner.write_list_end()?;
        self.w(json!({"op":"w_list_end"}));
        Ok(())
    }
    fn write_set_begin(&mut self, identifier: TSetIdentifier) -> Result<(), ThriftException> {
        self.inner.write_set_begin(identifier)?;
        self.w(json!({"op":"w_set_begin","t":identifier.element_type as u8,"n":identifier.size}));
        Ok(())
    }
    fn write_set_end(&mut self) -> Result<(), ThriftException> {
        self.inner.write_set_end()?;
        self.w(json!({"op":"w_set_end"}));
        Ok(())
    }
    fn write_map_begin(&mut self, identifier: TMapIdentifier) -> Result<(), ThriftException> {
        self.inner.write_map_begin(identifier)?;
        self.w(json!({"op":"w_map_begin","kt":identifier.key_type as u8,"vt":identifier.value_type as u8,"n":identifier.size}));
        Ok(())
    }
    fn write_map_end(&mut self) -> Result<(), ThriftException> {
        self.inner.write_map_end()?;
        self.w(json!({"op":"w_map_end"}));
        Ok(())
    }
    fn flush(&mut self) -> Result<(), ThriftException> {
        self.inner.flush()
    }
    fn buf_mut(&mut self) -> &mut Self::BufMut {
        self.inner.buf_mut()
    }
}

#[allow(dead_code)]
fn _unused(_: TFieldIdentifier) {}

// ------------------------------------------------------------------------------------------------
// reader side
use pilota::thrift::TInputProtocol;

use crate::interp::RProbe;

/// `TracedR<P>`: a TInputProtocol that delegates to the real reader and logs one event per call in the format of
/// `interp::read_tree`, plus the calls only emitted decoders make: the reader's own length methods (`rl_*`) and
/// `skip` (`r_skip`).
pub struct TracedR<P> {
    pub inner: P,
    pub log: Vec<Value>,
    pos: usize,
    pub unmodelled: Vec<String>,
}

impl<P: TInputProtocol + RProbe> TracedR<P> {
    pub fn new(mut inner: P) -> Self {
        let pos = inner.consumed();
        let st = inner.cstate();
        TracedR { inner, log: vec![json!({"op":"init","st":st})], pos, unmodelled: vec![] }
    }
    fn r(&mut self, mut ev: Value) {
        let now = self.inner.consumed();
        ev["n"] = json!(now - self.pos);
        self.pos = now;
        ev["st"] = self.inner.cstate();
        self.log.push(ev);
    }
    fn rl(&mut self, mut ev: Value, ret: usize) -> usize {
        ev["ret"] = json!(ret);
        ev["st"] = self.inner.cstate();
        self.log.push(ev);
        ret
    }
    /// bytes consumed since construction
    pub fn used(&mut self, start: usize) -> usize {
        self.inner.consumed() - start
    }
    pub fn start(&mut self) -> usize {
        self.inner.consumed()
    }
}

impl<P: TInputProtocol + RProbe> TLengthProtocol for TracedR<P> {
    fn message_begin_len(&mut self, identifier: &TMessageIdentifier) -> usize {
        self.unmodelled.push("in.message_begin_len".into());
        self.inner.message_begin_len(identifier)
    }
    fn message_end_len(&mut self) -> usize {
        self.inner.message_end_len()
    }
    fn struct_begin_len(&mut self, identifier: &TStructIdentifier) -> usize {
        let r = self.inner.struct_begin_len(identifier);
        self.rl(json!({"op":"rl_struct_begin"}), r)
    }
    fn struct_end_len(&mut self) -> usize {
        let r = self.inner.struct_end_len();
        self.rl(json!({"op":"rl_struct_end"}), r)
    }
    fn field_begin_len(&mut self, field_type: TType, id: Option<i16>) -> usize {
        let r = self.inner.field_begin_len(field_type, id);
        match id {
            Some(id) => self.rl(json!({"op":"rl_field_begin","t":field_type as u8,"id":id}), r),
            None => {
                self.unmodelled.push("in.field_begin_len(None)".into());
                r
            }
        }
    }
    fn field_end_len(&mut self) -> usize {
        let r = self.inner.field_end_len();
        self.rl(json!({"op":"rl_field_end"}), r)
    }
    fn field_stop_len(&mut self) -> usize {
        let r = self.inner.field_stop_len();
        self.rl(json!({"op":"rl_field_stop"}), r)
    }
    fn bool_len(&mut self, b: bool) -> usize {
        let r = self.inner.bool_len(b);
        self.rl(json!({"op":"rl_bool","b": if b {1} else {0}}), r)
    }
    fn bytes_len(&mut self, b: &[u8]) -> usize {
        let r = self.inner.bytes_len(b);
        self.rl(json!({"op":"rl_binary","n":b.len()}), r)
    }
    fn bytes_vec_len(&mut self, b: &[u8]) -> usize {
        let r = self.inner.bytes_vec_len(b);
        self.rl(json!({"op":"rl_binary","n":b.len()}), r)
    }
    fn byte_len(&mut self, b: u8) -> usize {
        let r = self.inner.byte_len(b);
        self.rl(json!({"op":"rl_i8","v":[b]}), r)
    }
    fn uuid_len(&mut self, u: [u8; 16]) -> usize {
        let r = self.inner.uuid_len(u);
        self.rl(json!({"op":"rl_uuid","v":bytes_json(&u)}), r)
    }
    fn i8_len(&mut self, i: i8) -> usize {
        let r = self.inner.i8_len(i);
        self.rl(json!({"op":"rl_i8","v":[i as u8]}), r)
    }
    fn i16_len(&mut self, i: i16) -> usize {
        let r = self.inner.i16_len(i);
        self.rl(json!({"op":"rl_i16","v":limbs(i as u16 as u64, 1)}), r)
    }
    fn i32_len(&mut self, i: i32) -> usize {
        let r = self.inner.i32_len(i);
        self.rl(json!({"op":"rl_i32","v":limbs(i as u32 as u64, 2)}), r)
    }
    fn i64_len(&mut self, i: i64) -> usize {
        let r = self.inner.i64_len(i);
        self.rl(json!({"op":"rl_i64","v":limbs(i as u64, 4)}), r)
    }
    fn double_len(&mut self, d: f64) -> usize {
        let r = self.inner.double_len(d);
        self.rl(json!({"op":"rl_double","v":f64_bytes(d)}), r)
    }
    fn string_len(&mut self, s: &str) -> usize {
        let r = self.inner.string_len(s);
        self.rl(json!({"op":"rl_binary","n":s.len()}), r)
    }
    fn faststr_len(&mut self, s: &FastStr) -> usize {
        let r = self.inner.faststr_len(s);
        self.rl(json!({"op":"rl_binary","n":s.len()}), r)
    }
    fn list_begin_len(&mut self, identifier: TListIdentifier) -> usize {
        let r = self.inner.list_begin_len(identifier);
        self.rl(json!({"op":"rl_list_begin","t":identifier.element_type as u8,"n":identifier.size}), r)
    }
    fn list_end_len(&mut self) -> usize {
        let r = self.inner.list_end_len();
        self.rl(json!({"op":"rl_list_end"}), r)
    }
    fn set_begin_len(&mut self, identifier: TSetIdentifier) -> usize {
        let r = self.inner.set_begin_len(identifier);
        self.rl(json!({"op":"rl_set_begin","t":identifier.element_type as u8,"n":identifier.size}), r)
    }
    fn set_end_len(&mut self) -> usize {
        let r = self.inner.set_end_len();
        self.rl(json!({"op":"rl_set_end"}), r)
    }
    fn map_begin_len(&mut self, identifier: TMapIdentifier) -> usize {
        let r = self.inner.map_begin_len(identifier);
        self.rl(json!({"op":"rl_map_begin","kt":identifier.key_type as u8,"vt":identifier.value_type as u8,"n":identifier.size}), r)
    }
    fn map_end_len(&mut self) -> usize {
        let r = self.inner.map_end_len();
        self.rl(json!({"op":"rl_map_end"}), r)
    }
    fn zero_copy_len(&mut self) -> usize {
        self.inner.zero_copy_len()
    }
    fn reset(&mut self) {
        self.inner.reset()
    }
}

impl<P: TInputProtocol + RProbe> TInputProtocol for TracedR<P> {
    type Buf = P::Buf;

    fn read_message_begin(&mut self) -> Result<TMessageIdentifier, ThriftException> {
        self.unmodelled.push("read_message_begin".into());
        self.inner.read_message_begin()
    }
    fn read_message_end(&mut self) -> Result<(), ThriftException> {
        self.inner.read_message_end()
    }
    fn read_struct_begin(&mut self) -> Result<Option<TStructIdentifier>, ThriftException> {
        let r = self.inner.read_struct_begin()?;
        self.r(json!({"op":"r_struct_begin"}));
        Ok(r)
    }
    fn read_struct_end(&mut self) -> Result<(), ThriftException> {
        self.inner.read_struct_end()?;
        self.r(json!({"op":"r_struct_end"}));
        Ok(())
    }
    fn read_field_begin(&mut self) -> Result<TFieldIdentifier, ThriftException> {
        let f = self.inner.read_field_begin()?;
        if f.field_type == TType::Stop {
            self.r(json!({"op":"r_field_stop"}));
        } else {
            self.r(json!({"op":"r_field_begin","t":f.field_type as u8,"id":f.id.unwrap_or(0)}));
        }
        Ok(f)
    }
    fn read_field_end(&mut self) -> Result<(), ThriftException> {
        self.inner.read_field_end()?;
        self.r(json!({"op":"r_field_end"}));
        Ok(())
    }
    fn read_bool(&mut self) -> Result<bool, ThriftException> {
        let b = self.inner.read_bool()?;
        self.r(json!({"op":"r_bool","b": if b {1} else {0}}));
        Ok(b)
    }
    fn read_bytes(&mut self) -> Result<Bytes, ThriftException> {
        let b = self.inner.read_bytes()?;
        self.r(json!({"op":"r_binary","api":"bytes","v":bytes_json(&b)}));
        Ok(b)
    }
    fn read_uuid(&mut self) -> Result<[u8; 16], ThriftException> {
        let u = self.inner.read_uuid()?;
        self.r(json!({"op":"r_uuid","v":bytes_json(&u)}));
        Ok(u)
    }
    fn read_i8(&mut self) -> Result<i8, ThriftException> {
        let x = self.inner.read_i8()?;
        self.r(json!({"op":"r_i8","v":[x as u8]}));
        Ok(x)
    }
    fn read_i16(&mut self) -> Result<i16, ThriftException> {
        let x = self.inner.read_i16()?;
        self.r(json!({"op":"r_i16","v":limbs(x as u16 as u64, 1)}));
        Ok(x)
    }
    fn read_i32(&mut self) -> Result<i32, ThriftException> {
        let x = self.inner.read_i32()?;
        self.r(json!({"op":"r_i32","v":limbs(x as u32 as u64, 2)}));
        Ok(x)
    }
    fn read_i64(&mut self) -> Result<i64, ThriftException> {
        let x = self.inner.read_i64()?;
        self.r(json!({"op":"r_i64","v":limbs(x as u64, 4)}));
        Ok(x)
    }
    fn read_double(&mut self) -> Result<f64, ThriftException> {
        let x = self.inner.read_double()?;
        self.r(json!({"op":"r_double","v":f64_bytes(x)}));
        Ok(x)
    }
    fn read_string(&mut self) -> Result<String, ThriftException> {
        let s = self.inner.read_string()?;
        self.r(json!({"op":"r_binary","api":"str","v":bytes_json(s.as_bytes())}));
        Ok(s)
    }
    fn read_faststr(&mut self) -> Result<FastStr, ThriftException> {
        let s = self.inner.read_faststr()?;
        self.r(json!({"op":"r_binary","api":"faststr","v":bytes_json(s.as_bytes())}));
        Ok(s)
    }
    fn read_list_begin(&mut self) -> Result<TListIdentifier, ThriftException> {
        let i = self.inner.read_list_begin()?;
        self.r(json!({"op":"r_list_begin","t":i.element_type as u8,"cnt":i.size}));
        Ok(i)
    }
    fn read_list_end(&mut self) -> Result<(), ThriftException> {
        self.inner.read_list_end()?;
        self.r(json!({"op":"r_list_end"}));
        Ok(())
    }
    fn read_set_begin(&mut self) -> Result<TSetIdentifier, ThriftException> {
        let i = self.inner.read_set_begin()?;
        self.r(json!({"op":"r_set_begin","t":i.element_type as u8,"cnt":i.size}));
        Ok(i)
    }
    fn read_set_end(&mut self) -> Result<(), ThriftException> {
        self.inner.read_set_end()?;
        self.r(json!({"op":"r_set_end"}));
        Ok(())
    }
    fn read_map_begin(&mut self) -> Result<TMapIdentifier, ThriftException> {
        let i = self.inner.read_map_begin()?;
        self.r(json!({"op":"r_map_begin","kt":i.key_type as u8,"vt":i.value_type as u8,"cnt":i.size}));
        Ok(i)
    }
    fn read_map_end(&mut self) -> Result<(), ThriftException> {
        self.inner.read_map_end()?;
        self.r(json!({"op":"r_map_end"}));
        Ok(())
    }
    fn skip(&mut self, field_type: TType) -> Result<usize, ThriftException> {
        let n = self.inner.skip(field_type)?;
        self.r(json!({"op":"r_skip","t":field_type as u8,"ret":n}));
        Ok(n)
    }
    fn skip_till_depth(&mut self, field_type: TType, depth: i8) -> Result<usize, ThriftException> {
        let n = self.inner.skip_till_depth(field_type, depth)?;
        self.r(json!({"op":"r_skip","t":field_type as u8,"ret":n}));
        Ok(n)
    }
    fn read_byte(&mut self) -> Result<u8, ThriftException> {
        let x = self.inner.read_byte()?;
        self.r(json!({"op":"r_i8","v":[x]}));
        Ok(x)
    }
    fn read_bytes_vec(&mut self) -> Result<Vec<u8>, ThriftException> {
        let b = self.inner.read_bytes_vec()?;
        self.r(json!({"op":"r_binary","api":"vec","v":bytes_json(&b)}));
        Ok(b)
    }
    fn get_bytes(&mut self, ptr: Option<*const u8>, len: usize) -> Result<Bytes, ThriftException> {
        // retention: a copy of already consumed input when `ptr` is given (the unchecked reader re-bases its cursor
        // while doing so), the REST of the input when it is not (the argument-type shortcut)
        let b = self.inner.get_bytes(ptr, len)?;
        self.r(json!({"op":"r_get_bytes","len":len,"copy": ptr.is_some()}));
        Ok(b)
    }
    fn buf(&mut self) -> &mut Self::Buf {
        self.inner.buf()
    }
}

// ------------------------------------------------------------------------------------------------
// asynchronous reader side
use std::sync::atomic::{AtomicUsize, Ordering};
use std::sync::Arc;

use pilota::thrift::TAsyncInputProtocol;

/// private state of an asynchronous protocol object (compact: through the hook), in the reader's event format
pub trait AProbe {
    fn astate(&self) -> Value {
        json!([])
    }
}
impl<R> AProbe for pilota::thrift::binary::TAsyncBinaryProtocol<R> {}
impl<R> AProbe for pilota::thrift::binary_le::TAsyncBinaryProtocol<R> {}
impl<R> AProbe for pilota::thrift::compact::TAsyncCompactProtocol<R> {
    fn astate(&self) -> Value {
        let (last, stack, pv) = self.verif_state();
        json!({"last": last, "stack": stack, "pv": match pv { None => json!([]), Some(b) => json!([if b {1} else {0}]) }, "pid": []})
    }
}

/// `TracedAR<P>`: a TAsyncInputProtocol that delegates to the real asynchronous protocol and logs one event per call in the
/// format of the in-memory readers; `pos` mirrors the number of bytes the scripted stream has delivered.
pub struct TracedAR<P> {
    pub inner: P,
    pub log: Vec<Value>,
    pos: usize,
    shared: Arc<AtomicUsize>,
    pub unmodelled: Vec<String>,
}

impl<P: TAsyncInputProtocol + AProbe> TracedAR<P> {
    pub fn new(inner: P, shared: Arc<AtomicUsize>) -> Self {
        let st = inner.astate();
        TracedAR { inner, log: vec![json!({"op":"init","st":st})], pos: 0, shared, unmodelled: vec![] }
    }
    fn r(&mut self, mut ev: Value) {
        let now = self.shared.load(Ordering::SeqCst);
        ev["n"] = json!(now - self.pos);
        self.pos = now;
        ev["st"] = self.inner.astate();
        self.log.push(ev);
    }
}

impl<P: TAsyncInputProtocol + AProbe + Send> TAsyncInputProtocol for TracedAR<P> {
    async fn read_message_begin(&mut self) -> Result<TMessageIdentifier, ThriftException> {
        self.unmodelled.push("async.read_message_begin".into());
        self.inner.read_message_begin().await
    }
    async fn read_message_end(&mut self) -> Result<(), ThriftException> {
        self.inner.read_message_end().await
    }
    async fn read_struct_begin(&mut self) -> Result<Option<TStructIdentifier>, ThriftException> {
        let r = self.inner.read_struct_begin().await?;
        self.r(json!({"op":"r_struct_begin"}));
        Ok(r)
    }
    async fn read_struct_end(&mut self) -> Result<(), ThriftException> {
        self.inner.read_struct_end().await?;
        self.r(json!({"op":"r_struct_end"}));
        Ok(())
    }
    async fn read_field_begin(&mut self) -> Result<TFieldIdentifier, ThriftException> {
        let f = self.inner.read_field_begin().await?;
        if f.field_type == TType::Stop {
            self.r(json!({"op":"r_field_stop"}));
        } else {
            self.r(json!({"op":"r_field_begin","t":f.field_type as u8,"id":f.id.unwrap_or(0)}));
        }
        Ok(f)
    }
    async fn read_field_end(&mut self) -> Result<(), ThriftException> {
        self.inner.read_field_end().await?;
        self.r(json!({"op":"r_field_end"}));
        Ok(())
    }
    async fn read_bool(&mut self) -> Result<bool, ThriftException> {
        let b = self.inner.read_bool().await?;
        self.r(json!({"op":"r_bool","b": if b {1} else {0}}));
        Ok(b)
    }
    async fn read_bytes(&mut self) -> Result<Bytes, ThriftException> {
        let b = self.inner.read_bytes().await?;
        self.r(json!({"op":"r_binary","api":"bytes","v":bytes_json(&b)}));
        Ok(b)
    }
    async fn read_bytes_vec(&mut self) -> Result<Vec<u8>, ThriftException> {
        let b = self.inner.read_bytes_vec().await?;
        self.r(json!({"op":"r_binary","api":"vec","v":bytes_json(&b)}));
        Ok(b)
    }
    async fn read_uuid(&mut self) -> Result<[u8; 16], ThriftException> {
        let u = self.inner.read_uuid().await?;
        self.r(json!({"op":"r_uuid","v":bytes_json(&u)}));
        Ok(u)
    }
    async fn read_string(&mut self) -> Result<String, ThriftException> {
        let s = self.inner.read_string().await?;
        self.r(json!({"op":"r_binary","api":"str","v":bytes_json(s.as_bytes())}));
        Ok(s)
    }
    async fn read_faststr(&mut self) -> Result<FastStr, ThriftException> {
        let s = self.inner.read_faststr().await?;
        self.r(json!({"op":"r_binary","api":"faststr","v":bytes_json(s.as_bytes())}));
        Ok(s)
    }
    async fn read_byte(&mut self) -> Result<u8, ThriftException> {
        let x = self.inner.read_byte().await?;
        self.r(json!({"op":"r_i8","v":[x]}));
        Ok(x)
    }
    async fn read_i8(&mut self) -> Result<i8, ThriftException> {
        let x = self.inner.read_i8().await?;
        self.r(json!({"op":"r_i8","v":[x as u8]}));
        Ok(x)
    }
    async fn read_i16(&mut self) -> Result<i16, ThriftException> {
        let x = self.inner.read_i16().await?;
        self.r(json!({"op":"r_i16","v":limbs(x as u16 as u64, 1)}));
        Ok(x)
    }
    async fn read_i32(&mut self) -> Result<i32, ThriftException> {
        let x = self.inner.read_i32().await?;
        self.r(json!({"op":"r_i32","v":limbs(x as u32 as u64, 2)}));
        Ok(x)
    }
    async fn read_i64(&mut self) -> Result<i64, ThriftException> {
        let x = self.inner.read_i64().await?;
        self.r(json!({"op":"r_i64","v":limbs(x as u64, 4)}));
        Ok(x)
    }
    async fn read_double(&mut self) -> Result<f64, ThriftException> {
        let x = self.inner.read_double().await?;
        self.r(json!({"op":"r_double","v":f64_bytes(x)}));
        Ok(x)
    }
    async fn read_list_begin(&mut self) -> Result<TListIdentifier, ThriftException> {
        let i = self.inner.read_list_begin().await?;
        self.r(json!({"op":"r_list_begin","t":i.element_type as u8,"cnt":i.size,"async":true}));
        Ok(i)
    }
    async fn read_list_end(&mut self) -> Result<(), ThriftException> {
        self.inner.read_list_end().await?;
        self.r(json!({"op":"r_list_end"}));
        Ok(())
    }
    async fn read_set_begin(&mut self) -> Result<TSetIdentifier, ThriftException> {
        let i = self.inner.read_set_begin().await?;
        self.r(json!({"op":"r_set_begin","t":i.element_type as u8,"cnt":i.size,"async":true}));
        Ok(i)
    }
    async fn read_set_end(&mut self) -> Result<(), ThriftException> {
        self.inner.read_set_end().await?;
        self.r(json!({"op":"r_set_end"}));
        Ok(())
    }
    async fn read_map_begin(&mut self) -> Result<TMapIdentifier, ThriftException> {
        let i = self.inner.read_map_begin().await?;
        self.r(json!({"op":"r_map_begin","kt":i.key_type as u8,"vt":i.value_type as u8,"cnt":i.size,"async":true}));
        Ok(i)
    }
    async fn read_map_end(&mut self) -> Result<(), ThriftException> {
        self.inner.read_map_end().await?;
        self.r(json!({"op":"r_map_end"}));
        Ok(())
    }
    async fn skip(&mut self, field_type: TType) -> Result<(), ThriftException> {
        self.inner.skip(field_type).await?;
        // the asynchronous skipper reports nothing: the event carries what the stream delivered meanwhile
        let n = self.shared.load(Ordering::SeqCst) - self.pos;
        self.r(json!({"op":"r_skip","t":field_type as u8,"ret":n}));
        Ok(())
    }
}
