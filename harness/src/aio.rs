//! Deterministic asynchronous plumbing: a scripted `AsyncRead` that plays a delivery schedule
//! (chunk sizes, spurious `Pending`s, early EOF) and logs every `poll_read`, a single-thread
//! executor with a no-op waker, and the async twin of the value interpreter.
use std::future::Future;
use std::pin::Pin;
use std::task::{Context, Poll, Waker};

use pilota::thrift::{TAsyncInputProtocol, TType, ThriftException};
use tokio::io::{AsyncRead, ReadBuf};

use crate::tree::Tree;

#[derive(Clone, Copy, Debug, PartialEq)]
pub enum Sched {
    /// deliver at most k bytes on the next poll
    Deliver(usize),
    /// answer Pending once
    Pending,
}

#[derive(Debug, Clone)]
pub struct PollLog {
    /// capacity offered by the caller
    pub cap: usize,
    /// bytes taken (None = Pending)
    pub got: Option<usize>,
}

pub struct ScriptedReader {
    pub data: Vec<u8>,
    pub pos: usize,
    /// bytes of `data` that exist on the stream (EOF after that)
    pub eof_at: usize,
    pub sched: Vec<Sched>,
    pub step: usize,
    /// when the schedule is exhausted: deliver this many bytes per poll
    pub default_chunk: usize,
    /// chunk boundaries of the stream (sorted offsets): when set, a poll delivers at most up to the
    /// next boundary and the schedule only contributes its `Pending`s
    pub bounds: Option<Vec<usize>>,
    pub log: Vec<PollLog>,
    /// mirror of `pos` for an observer that cannot borrow the reader (the protocol object owns the borrow)
    pub shared_pos: Option<std::sync::Arc<std::sync::atomic::AtomicUsize>>,
}

impl ScriptedReader {
    pub fn new(data: Vec<u8>, sched: Vec<Sched>, default_chunk: usize) -> Self {
        let n = data.len();
        ScriptedReader { data, pos: 0, eof_at: n, sched, step: 0, default_chunk, bounds: None, log: Vec::new(), shared_pos: None }
    }
    pub fn max_cap(&self) -> usize {
        self.log.iter().map(|l| l.cap).max().unwrap_or(0)
    }
}

impl AsyncRead for ScriptedReader {
    fn poll_read(mut self: Pin<&mut Self>, cx: &mut Context<'_>, buf: &mut ReadBuf<'_>) -> Poll<std::io::Result<()>> {
        let cap = buf.remaining();
        let s = if self.step < self.sched.len() {
            let s = self.sched[self.step];
            self.step += 1;
            s
        } else {
            Sched::Deliver(self.default_chunk)
        };
        match s {
            Sched::Pending => {
                self.log.push(PollLog { cap, got: None });
                cx.waker().wake_by_ref();
                Poll::Pending
            }
            Sched::Deliver(k) => {
                let avail = self.eof_at - self.pos;
                let k = match &self.bounds {
                    Some(b) => b.iter().find(|x| **x > self.pos).map(|x| *x - self.pos).unwrap_or(usize::MAX),
                    None => k,
                };
                let n = k.max(1).min(cap).min(avail);
                let (a, b) = (self.pos, self.pos + n);
                buf.put_slice(&self.data[a..b]);
                self.pos = b;
                if let Some(sp) = &self.shared_pos {
                    sp.store(b, std::sync::atomic::Ordering::SeqCst);
                }
                self.log.push(PollLog { cap, got: Some(n) });
                Poll::Ready(Ok(()))
            }
        }
    }
}

/// Run a future to completion on the current thread; `max_polls` bounds a livelock.
pub fn block_on<F: Future + ?Sized>(mut fut: Pin<Box<F>>, max_polls: usize) -> Option<F::Output> {
    let waker = Waker::noop();
    let mut cx = Context::from_waker(waker);
    for _ in 0..max_polls {
        if let Poll::Ready(v) = fut.as_mut().poll(&mut cx) {
            return Some(v);
        }
    }
    None
}

/// Schema-less async read of one value of wire type `t`.
pub fn read_tree_async<'a, P: TAsyncInputProtocol>(
    p: &'a mut P,
    t: u8,
    mode: usize,
) -> Pin<Box<dyn Future<Output = Result<Tree, ThriftException>> + Send + 'a>> {
    Box::pin(async move {
        Ok(match t {
            2 => Tree::Bool(p.read_bool().await?),
            3 => Tree::I8(if mode % 2 == 0 { p.read_i8().await? } else { p.read_byte().await? as i8 }),
            6 => Tree::I16(p.read_i16().await?),
            8 => Tree::I32(p.read_i32().await?),
            10 => Tree::I64(p.read_i64().await?),
            4 => Tree::Double(p.read_double().await?.to_bits()),
            16 => Tree::Uuid(p.read_uuid().await?),
            11 => Tree::Binary(match mode % 3 {
                0 => p.read_bytes().await?.to_vec(),
                1 => p.read_bytes_vec().await?,
                _ => p.read_faststr().await?.as_bytes().to_vec(),
            }),
            12 => {
                p.read_struct_begin().await?;
                let mut fs = Vec::new();
                loop {
                    let f = p.read_field_begin().await?;
                    if f.field_type == TType::Stop {
                        break;
                    }
                    let id = f.id.expect("non-stop field has an id");
                    let x = read_tree_async(p, f.field_type as u8, mode + 1).await?;
                    p.read_field_end().await?;
                    fs.push((id, x));
                }
                p.read_struct_end().await?;
                Tree::Struct(fs)
            }
            15 => {
                let i = p.read_list_begin().await?;
                let mut es = Vec::new();
                for _ in 0..i.size {
                    es.push(read_tree_async(p, i.element_type as u8, mode + 1).await?);
                }
                p.read_list_end().await?;
                Tree::List(i.element_type as u8, es)
            }
            14 => {
                let i = p.read_set_begin().await?;
                let mut es = Vec::new();
                for _ in 0..i.size {
                    es.push(read_tree_async(p, i.element_type as u8, mode + 1).await?);
                }
                p.read_set_end().await?;
                Tree::Set(i.element_type as u8, es)
            }
            13 => {
                let i = p.read_map_begin().await?;
                let mut kvs = Vec::new();
                for _ in 0..i.size {
                    let k = read_tree_async(p, i.key_type as u8, mode + 1).await?;
                    let v = read_tree_async(p, i.value_type as u8, mode + 1).await?;
                    kvs.push((k, v));
                }
                p.read_map_end().await?;
                Tree::Map(i.key_type as u8, i.value_type as u8, kvs)
            }
            _ => {
                p.skip(crate::interp::ttype(t)).await?;
                return Err(pilota::thrift::new_protocol_exception(
                    pilota::thrift::ProtocolExceptionKind::InvalidData,
                    "harness: skipped a value of a non-value type",
                ));
            }
        })
    })
}
