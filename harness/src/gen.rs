//! Seeded random value trees, larger than anything TLC enumerates (deep nesting, 64-bit extremes,
//! long payloads, arbitrary field ids). Only used to drive the implementation; expectations come
//! from the specification via trace validation.
use rand::{rngs::StdRng, Rng, SeedableRng};

use crate::tree::Tree;

pub struct Gen {
    pub rng: StdRng,
    pub max_depth: usize,
    pub max_str: usize,
    pub big_every: u32,
}

const LEAF_TYPES: [u8; 8] = [2, 3, 4, 6, 8, 10, 11, 16];
const ALL_TYPES: [u8; 12] = [2, 3, 4, 6, 8, 10, 11, 16, 12, 13, 14, 15];

impl Gen {
    pub fn new(seed: u64) -> Self {
        Gen { rng: StdRng::seed_from_u64(seed), max_depth: 6, max_str: 300, big_every: 40 }
    }
    fn int64(&mut self) -> i64 {
        match self.rng.gen_range(0..6) {
            0 => self.rng.gen::<i64>(),
            1 => {
                let e = self.rng.gen_range(0..64);
                let b = (1u64 << e) as i64;
                b.wrapping_add(self.rng.gen_range(-2..=2))
            }
            2 => {
                let e = self.rng.gen_range(0..64);
                ((1u64 << e) as i64).wrapping_neg().wrapping_add(self.rng.gen_range(-2..=2))
            }
            3 => self.rng.gen_range(-300..300),
            4 => *[i64::MIN, i64::MAX, 0, -1, 1].get(self.rng.gen_range(0..5)).unwrap(),
            _ => self.rng.gen::<i32>() as i64,
        }
    }
    fn field_id(&mut self) -> i16 {
        match self.rng.gen_range(0..8) {
            0 => self.rng.gen::<i16>(),
            1 => *[i16::MIN, i16::MAX, 0, -1].get(self.rng.gen_range(0..4)).unwrap(),
            _ => self.rng.gen_range(1..40),
        }
    }
    fn bytes(&mut self, utf8: bool) -> Vec<u8> {
        let n = if self.rng.gen_ratio(1, self.big_every) {
            *[4095usize, 4096, 4097, 5000, 16384].get(self.rng.gen_range(0..5)).unwrap()
        } else if self.rng.gen_ratio(1, 4) {
            *[0usize, 1, 127, 128, 129].get(self.rng.gen_range(0..5)).unwrap()
        } else {
            self.rng.gen_range(0..self.max_str)
        };
        if utf8 {
            let mut s = String::new();
            while s.len() < n {
                let c = match self.rng.gen_range(0..10) {
                    0 => 'é',
                    1 => '€',
                    2 => '😀',
                    _ => (b'a' + self.rng.gen_range(0..26)) as char,
                };
                if s.len() + c.len_utf8() > n {
                    s.push('x');
                } else {
                    s.push(c);
                }
            }
            s.into_bytes()
        } else {
            (0..n).map(|_| self.rng.gen::<u8>()).collect()
        }
    }
    pub fn leaf(&mut self, t: u8) -> Tree {
        match t {
            2 => Tree::Bool(self.rng.gen()),
            3 => Tree::I8(self.rng.gen()),
            4 => Tree::Double(match self.rng.gen_range(0..4) {
                0 => self.rng.gen::<u64>(),
                1 => f64::to_bits(self.rng.gen::<f64>() * 1e6),
                2 => *[0u64, 1 << 63, 0x7ff0_0000_0000_0000, 0xfff0_0000_0000_0000, 0x7ff8_0000_0000_0001, 1]
                    .get(self.rng.gen_range(0..6))
                    .unwrap(),
                _ => f64::to_bits(-1.5),
            }),
            6 => Tree::I16(self.int64() as i16),
            8 => Tree::I32(self.int64() as i32),
            10 => Tree::I64(self.int64()),
            11 => {
                if self.rng.gen() {
                    Tree::Binary(self.bytes(false))
                } else {
                    Tree::Str(self.bytes(true))
                }
            }
            16 => {
                let mut u = [0u8; 16];
                self.rng.fill(&mut u);
                Tree::Uuid(u)
            }
            _ => unreachable!(),
        }
    }
    pub fn of_type(&mut self, t: u8, depth: usize) -> Tree {
        match t {
            12 => {
                let n = if depth == 0 { 0 } else { self.rng.gen_range(0..6) };
                let mut fs = Vec::new();
                let mut id: i16 = 0;
                for _ in 0..n {
                    // mostly ascending ids with occasional arbitrary ones (deltas of every sign)
                    id = if self.rng.gen_ratio(3, 4) { id.wrapping_add(self.rng.gen_range(1..18)) } else { self.field_id() };
                    let ft = self.pick_type(depth - 1);
                    fs.push((id, self.of_type(ft, depth - 1)));
                }
                Tree::Struct(fs)
            }
            14 | 15 => {
                let et = self.pick_type(depth.saturating_sub(1));
                let n = if depth == 0 { 0 } else { *[0usize, 1, 2, 3, 14, 15, 16, 40].get(self.rng.gen_range(0..8)).unwrap() };
                let n = if et > 11 && et != 16 { n.min(3) } else { n };
                let es = (0..n).map(|_| self.of_type(et, depth.saturating_sub(1))).collect();
                if t == 15 {
                    Tree::List(et, es)
                } else {
                    Tree::Set(et, es)
                }
            }
            13 => {
                let kt = self.pick_type(depth.saturating_sub(1));
                let vt = self.pick_type(depth.saturating_sub(1));
                let n = if depth == 0 { 0 } else { *[0usize, 1, 2, 3, 15, 16].get(self.rng.gen_range(0..6)).unwrap() };
                let n = if (kt > 11 && kt != 16) || (vt > 11 && vt != 16) { n.min(3) } else { n };
                let kvs = (0..n).map(|_| (self.of_type(kt, depth.saturating_sub(1)), self.of_type(vt, depth.saturating_sub(1)))).collect();
                Tree::Map(kt, vt, kvs)
            }
            _ => self.leaf(t),
        }
    }
    fn pick_type(&mut self, depth: usize) -> u8 {
        if depth == 0 {
            LEAF_TYPES[self.rng.gen_range(0..LEAF_TYPES.len())]
        } else {
            ALL_TYPES[self.rng.gen_range(0..ALL_TYPES.len())]
        }
    }
    pub fn tree(&mut self) -> Tree {
        let d = self.rng.gen_range(0..=self.max_depth);
        let t = self.pick_type(d);
        self.of_type(t, d)
    }
}
