//! The protocol x buffer matrix: constructors, observation probes and the two drivers
//! (`encode_seq`, `decode_seq`) used by every Thrift runtime check.
use std::panic::{catch_unwind, AssertUnwindSafe};

use bytes::{Buf, BufMut, Bytes, BytesMut};
use linkedbytes::LinkedBytes;
use pilota::thrift::{
    binary, binary_le, binary_unsafe, compact, TInputProtocol, TOutputProtocol,
};
use serde_json::{json, Value};

use crate::interp::{len_tree, read_tree, write_tree, Ctx, RProbe, WProbe};
use crate::tree::Tree;

#[derive(Clone, Copy, Debug, PartialEq, Eq)]
pub enum Proto {
    Bin,
    BinLe,
    Compact,
    Unsafe,
}
impl Proto {
    pub const ALL: [Proto; 4] = [Proto::Bin, Proto::BinLe, Proto::Compact, Proto::Unsafe];
    pub fn name(self) -> &'static str {
        match self {
            Proto::Bin => "bin",
            Proto::BinLe => "binle",
            Proto::Compact => "compact",
            Proto::Unsafe => "unsafe",
        }
    }
    pub fn parse(s: &str) -> Proto {
        match s {
            "bin" => Proto::Bin,
            "binle" => Proto::BinLe,
            "compact" => Proto::Compact,
            "unsafe" => Proto::Unsafe,
            _ => panic!("proto {s}"),
        }
    }
}
#[derive(Clone, Copy, Debug, PartialEq, Eq)]
pub enum BufKind {
    BytesMut,
    Linked,
    LinkedZc,
}
impl BufKind {
    pub const ALL: [BufKind; 3] = [BufKind::BytesMut, BufKind::Linked, BufKind::LinkedZc];
    pub fn name(self) -> &'static str {
        match self {
            BufKind::BytesMut => "bytesmut",
            BufKind::Linked => "linked",
            BufKind::LinkedZc => "linkedzc",
        }
    }
}

pub fn flatten_linked(lb: &LinkedBytes) -> Vec<u8> {
    let mut v = Vec::new();
    for n in lb.iter_list() {
        v.extend_from_slice(n.as_ref());
    }
    v.extend_from_slice(lb.bytes());
    v
}
pub fn linked_nodes(lb: &LinkedBytes) -> usize {
    lb.iter_list().count()
}

// ---------------------------------------------------------------- writer probes
macro_rules! probe_bytesmut {
    ($t:ty) => {
        impl<'a> WProbe for $t {
            fn out_len(&mut self) -> usize {
                self.buf_mut().len()
            }
            fn out_from(&mut self, from: usize) -> Vec<u8> {
                self.buf_mut()[from..].to_vec()
            }
        }
    };
}
macro_rules! probe_linked {
    ($t:ty) => {
        impl<'a> WProbe for $t {
            fn out_len(&mut self) -> usize {
                flatten_linked(self.buf_mut()).len()
            }
            fn out_from(&mut self, from: usize) -> Vec<u8> {
                flatten_linked(self.buf_mut())[from..].to_vec()
            }
        }
    };
}
probe_bytesmut!(binary::TBinaryProtocol<&'a mut BytesMut>);
probe_bytesmut!(binary_le::TBinaryProtocol<&'a mut BytesMut>);
probe_linked!(binary::TBinaryProtocol<&'a mut LinkedBytes>);
probe_linked!(binary_le::TBinaryProtocol<&'a mut LinkedBytes>);

fn cw_state<T>(p: &compact::TCompactOutputProtocol<T>) -> Value {
    let (last, stack, pend) = p.verif_state();
    json!({"last": last, "stack": stack, "pend": match pend { None => json!([]), Some(None) => json!([-99999]), Some(Some(id)) => json!([id]) }})
}
impl<'a> WProbe for compact::TCompactOutputProtocol<&'a mut BytesMut> {
    fn out_len(&mut self) -> usize {
        self.buf_mut().len()
    }
    fn out_from(&mut self, from: usize) -> Vec<u8> {
        self.buf_mut()[from..].to_vec()
    }
    fn cstate(&self) -> Value {
        cw_state(self)
    }
}
impl<'a> WProbe for compact::TCompactOutputProtocol<&'a mut LinkedBytes> {
    fn out_len(&mut self) -> usize {
        flatten_linked(self.buf_mut()).len()
    }
    fn out_from(&mut self, from: usize) -> Vec<u8> {
        flatten_linked(self.buf_mut())[from..].to_vec()
    }
    fn cstate(&self) -> Value {
        cw_state(self)
    }
}
impl<'a> WProbe for binary_unsafe::TBinaryUnsafeOutputProtocol<&'a mut BytesMut> {
    fn out_len(&mut self) -> usize {
        self.index()
    }
    fn out_from(&mut self, from: usize) -> Vec<u8> {
        let i = self.index();
        self.buf_mut()[from..i].to_vec()
    }
    fn cstate(&self) -> Value {
        let (index, buflen) = self.verif_cursor();
        json!({"index": index, "buflen": buflen})
    }
}
fn unsafe_linked_flat(p: &mut binary_unsafe::TBinaryUnsafeOutputProtocol<&mut LinkedBytes>) -> Vec<u8> {
    let idx = p.index();
    let lb = p.buf_mut();
    let mut v = flatten_linked(lb);
    // bytes written into the spare capacity but not yet committed by advance_mut
    let spare = unsafe { std::slice::from_raw_parts(lb.bytes().as_ptr().add(lb.bytes().len()), idx) };
    v.extend_from_slice(spare);
    v
}
impl<'a> WProbe for binary_unsafe::TBinaryUnsafeOutputProtocol<&'a mut LinkedBytes> {
    fn out_len(&mut self) -> usize {
        unsafe_linked_flat(self).len()
    }
    fn out_from(&mut self, from: usize) -> Vec<u8> {
        unsafe_linked_flat(self)[from..].to_vec()
    }
    fn cstate(&self) -> Value {
        let (index, buflen) = self.verif_cursor();
        json!({"index": index, "buflen": buflen})
    }
}
impl WProbe for binary::TBinaryProtocol<()> {
    fn out_len(&mut self) -> usize {
        0
    }
    fn out_from(&mut self, _from: usize) -> Vec<u8> {
        vec![]
    }
}

// ---------------------------------------------------------------- reader probes
impl<'a> RProbe for binary::TBinaryProtocol<&'a mut Bytes> {
    fn consumed(&mut self) -> usize {
        usize::MAX - self.buf().remaining()
    }
}
impl<'a> RProbe for binary_le::TBinaryProtocol<&'a mut Bytes> {
    fn consumed(&mut self) -> usize {
        usize::MAX - self.buf().remaining()
    }
}
impl<'a> RProbe for compact::TCompactInputProtocol<&'a mut Bytes> {
    fn consumed(&mut self) -> usize {
        usize::MAX - self.buf().remaining()
    }
    fn cstate(&self) -> Value {
        let (last, stack, pv, pid) = self.verif_state();
        json!({"last": last, "stack": stack,
               "pv": match pv { None => json!([]), Some(b) => json!([if b {1} else {0}]) },
               "pid": match pid { None => json!([]), Some(None) => json!([-99999]), Some(Some(id)) => json!([id]) }})
    }
}
impl<'a> RProbe for binary_unsafe::TBinaryUnsafeInputProtocol<'a> {
    fn consumed(&mut self) -> usize {
        let i = self.index();
        usize::MAX - self.buf().remaining() + i
    }
    fn cstate(&self) -> Value {
        let (index, translen, buflen) = self.verif_cursor();
        json!({"index": index, "translen": translen, "buflen": buflen})
    }
}

// ---------------------------------------------------------------- drivers
#[derive(Default, Debug)]
pub struct EncOut {
    /// flattened output
    pub bytes: Vec<u8>,
    /// offset after each value
    pub ends: Vec<usize>,
    /// length-pass result per value (same object as the writer, run before each write)
    pub lens: Vec<usize>,
    /// compact: protocol state after each length pass / after each write (must be the fresh state)
    pub len_states: Vec<Value>,
    pub write_states: Vec<Value>,
    pub events: Vec<Value>,
    pub err: Option<String>,
    /// unchecked writer: guard bytes behind the exact-size buffer untouched
    pub guard_ok: bool,
    pub nodes: usize,
    pub zero_copy_len: usize,
}

pub fn panic_msg(e: Box<dyn std::any::Any + Send>) -> String {
    if let Some(s) = e.downcast_ref::<&str>() {
        format!("panic: {s}")
    } else if let Some(s) = e.downcast_ref::<String>() {
        format!("panic: {s}")
    } else {
        "panic".to_string()
    }
}

/// Shifts the rotation of API variants (write_bytes / write_bytes_vec, write_string / write_faststr, ...) so that a
/// caller can run the same value through each of them.
pub static MODE_OFFSET: std::sync::atomic::AtomicUsize = std::sync::atomic::AtomicUsize::new(0);

fn run_w<P: TOutputProtocol + WProbe>(p: &mut P, trees: &[Tree], log: bool, with_len: bool, out: &mut EncOut) {
    let mut c = if log { Ctx::logging() } else { Ctx::default() };
    if let Some(l) = c.log.as_mut() {
        l.push(json!({"op":"init","st":p.cstate()}));
    }
    for (i, t) in trees.iter().enumerate() {
        c.mode = i + MODE_OFFSET.load(std::sync::atomic::Ordering::SeqCst); // deterministic API-variant rotation per value
        if with_len {
            let m = c.mode;
            let n = len_tree(p, t, &mut c);
            c.mode = m;
            out.lens.push(n);
            out.len_states.push(p.cstate());
        }
        if let Err(e) = write_tree(p, t, &mut c) {
            out.err = Some(format!("err: {e}"));
            break;
        }
        out.write_states.push(p.cstate());
        out.ends.push(p.out_len());
    }
    out.zero_copy_len = p.zero_copy_len();
    if let Some(l) = c.log.take() {
        out.events = l;
    }
}

const GUARD: usize = 64;
const GUARD_BYTE: u8 = 0xA5;

/// Write `trees` back to back with ONE protocol instance onto ONE buffer.
pub fn encode_seq(proto: Proto, kind: BufKind, trees: &[Tree], log: bool, with_len: bool) -> EncOut {
    let mut out = EncOut { guard_ok: true, ..Default::default() };
    let zc = kind == BufKind::LinkedZc;
    let r = catch_unwind(AssertUnwindSafe(|| match (proto, kind) {
        (Proto::Bin, BufKind::BytesMut) => {
            let mut b = BytesMut::new();
            let mut p = binary::TBinaryProtocol::new(&mut b, false);
            run_w(&mut p, trees, log, with_len, &mut out);
            out.bytes = b.to_vec();
        }
        (Proto::Bin, _) => {
            let mut b = LinkedBytes::new();
            let mut p = binary::TBinaryProtocol::new(&mut b, zc);
            run_w(&mut p, trees, log, with_len, &mut out);
            out.nodes = linked_nodes(&b);
            out.bytes = flatten_linked(&b);
        }
        (Proto::BinLe, BufKind::BytesMut) => {
            let mut b = BytesMut::new();
            let mut p = binary_le::TBinaryProtocol::new(&mut b, false);
            run_w(&mut p, trees, log, with_len, &mut out);
            out.bytes = b.to_vec();
        }
        (Proto::BinLe, _) => {
            let mut b = LinkedBytes::new();
            let mut p = binary_le::TBinaryProtocol::new(&mut b, zc);
            run_w(&mut p, trees, log, with_len, &mut out);
            out.nodes = linked_nodes(&b);
            out.bytes = flatten_linked(&b);
        }
        (Proto::Compact, BufKind::BytesMut) => {
            let mut b = BytesMut::new();
            let mut p = compact::TCompactOutputProtocol::new(&mut b, false);
            run_w(&mut p, trees, log, with_len, &mut out);
            out.bytes = b.to_vec();
        }
        (Proto::Compact, _) => {
            let mut b = LinkedBytes::new();
            let mut p = compact::TCompactOutputProtocol::new(&mut b, zc);
            run_w(&mut p, trees, log, with_len, &mut out);
            out.nodes = linked_nodes(&b);
            out.bytes = flatten_linked(&b);
        }
        (Proto::Unsafe, _) => {
            // documented precondition: capacity >= size computed with TBinaryProtocol<()>
            let mut sizer = binary::TBinaryProtocol::new((), false);
            let mut c = Ctx::default();
            let size: usize = trees.iter().map(|t| len_tree(&mut sizer, t, &mut c)).sum();
            if kind == BufKind::BytesMut {
                let mut b = BytesMut::with_capacity(size + GUARD);
                b.resize(size + GUARD, GUARD_BYTE);
                let idx;
                {
                    let s = unsafe { std::slice::from_raw_parts_mut(b.as_mut_ptr(), size) };
                    let mut p = unsafe { binary_unsafe::TBinaryUnsafeOutputProtocol::new(&mut b, s, false) };
                    run_w(&mut p, trees, log, with_len, &mut out);
                    idx = p.index();
                }
                out.guard_ok = b[size..].iter().all(|x| *x == GUARD_BYTE) && idx <= size;
                out.bytes = b[..idx.min(size)].to_vec();
            } else {
                let mut b = LinkedBytes::with_capacity(size + GUARD);
                let cap = b.bytes_mut().capacity();
                unsafe {
                    let ptr = b.bytes_mut().as_mut_ptr();
                    std::ptr::write_bytes(ptr, GUARD_BYTE, cap);
                }
                let buf = unsafe {
                    let l = b.bytes_mut().len();
                    std::slice::from_raw_parts_mut(b.bytes_mut().as_mut_ptr().add(l), b.bytes_mut().capacity() - l)
                };
                let idx;
                {
                    let mut p = unsafe { binary_unsafe::TBinaryUnsafeOutputProtocol::new(&mut b, buf, zc) };
                    run_w(&mut p, trees, log, with_len, &mut out);
                    idx = p.index();
                }
                // the caller commits the tail, as the users of this codec do
                let spare = b.bytes_mut().capacity() - b.bytes_mut().len();
                if idx <= spare {
                    unsafe { b.bytes_mut().advance_mut(idx) };
                    let l = b.bytes_mut().len();
                    let capn = b.bytes_mut().capacity();
                    let tail = unsafe { std::slice::from_raw_parts(b.bytes_mut().as_ptr().add(l), capn - l) };
                    out.guard_ok = tail.iter().all(|x| *x == GUARD_BYTE);
                } else {
                    out.guard_ok = false;
                }
                out.nodes = linked_nodes(&b);
                out.bytes = flatten_linked(&b);
            }
        }
    }));
    if let Err(e) = r {
        out.err = Some(panic_msg(e));
    }
    out
}

#[derive(Default, Debug)]
pub struct DecOut {
    pub values: Vec<Tree>,
    /// offset after each value
    pub ends: Vec<usize>,
    pub states: Vec<Value>,
    pub events: Vec<Value>,
    pub err: Option<String>,
}

fn run_r<P: TInputProtocol + RProbe>(p: &mut P, types: &[u8], log: bool, utf8_ok: bool, out: &mut DecOut) {
    let mut c = if log { Ctx::logging() } else { Ctx::default() };
    let base = p.consumed();
    c.pos = base;
    c.utf8_ok = utf8_ok;
    if let Some(l) = c.log.as_mut() {
        l.push(json!({"op":"init","st":p.cstate()}));
    }
    for (i, t) in types.iter().enumerate() {
        c.mode = i;
        match read_tree(p, *t, &mut c) {
            Ok(v) => {
                out.values.push(v);
                out.ends.push(p.consumed() - base);
                out.states.push(p.cstate());
            }
            Err(e) => {
                out.err = Some(format!("err: {e}"));
                break;
            }
        }
    }
    if let Some(l) = c.log.take() {
        out.events = l;
    }
}

/// Read values of the given wire types back to back with ONE protocol instance from ONE buffer.
pub fn decode_seq(proto: Proto, input: &[u8], types: &[u8], log: bool) -> DecOut {
    decode_seq_u(proto, input, types, log, false)
}

pub fn decode_seq_u(proto: Proto, input: &[u8], types: &[u8], log: bool, utf8_ok: bool) -> DecOut {
    let mut out = DecOut::default();
    let r = catch_unwind(AssertUnwindSafe(|| {
        let mut b = Bytes::copy_from_slice(input);
        match proto {
            Proto::Bin => {
                let mut p = binary::TBinaryProtocol::new(&mut b, false);
                run_r(&mut p, types, log, utf8_ok, &mut out)
            }
            Proto::BinLe => {
                let mut p = binary_le::TBinaryProtocol::new(&mut b, false);
                run_r(&mut p, types, log, utf8_ok, &mut out)
            }
            Proto::Compact => {
                let mut p = compact::TCompactInputProtocol::new(&mut b);
                run_r(&mut p, types, log, utf8_ok, &mut out)
            }
            Proto::Unsafe => {
                let mut p = unsafe { binary_unsafe::TBinaryUnsafeInputProtocol::new(&mut b) };
                run_r(&mut p, types, log, utf8_ok, &mut out)
            }
        }
    }));
    if let Err(e) = r {
        out.err = Some(panic_msg(e));
    }
    out
}

/// skip(t) on a fresh reader positioned at the start of `input`; returns (reported, consumed).
pub fn skip_one(proto: Proto, input: &[u8], t: u8) -> Result<(usize, usize), String> {
    let r = catch_unwind(AssertUnwindSafe(|| -> Result<(usize, usize), String> {
        let mut b = Bytes::copy_from_slice(input);
        let tt = crate::interp::ttype(t);
        match proto {
            Proto::Bin => {
                let mut p = binary::TBinaryProtocol::new(&mut b, false);
                let c0 = p.consumed();
                let n = p.skip(tt).map_err(|e| format!("err: {e}"))?;
                Ok((n, p.consumed() - c0))
            }
            Proto::BinLe => {
                let mut p = binary_le::TBinaryProtocol::new(&mut b, false);
                let c0 = p.consumed();
                let n = p.skip(tt).map_err(|e| format!("err: {e}"))?;
                Ok((n, p.consumed() - c0))
            }
            Proto::Compact => {
                let mut p = compact::TCompactInputProtocol::new(&mut b);
                let c0 = p.consumed();
                let n = p.skip(tt).map_err(|e| format!("err: {e}"))?;
                Ok((n, p.consumed() - c0))
            }
            Proto::Unsafe => Err("harness: use skip_field for the unchecked reader".into()),
        }
    }));
    match r {
        Ok(x) => x,
        Err(e) => Err(panic_msg(e)),
    }
}

/// Skipping a value must leave the compact reader's private context (last field id, id stack, pending bool)
/// exactly as it found it. Returns a description of the difference, if any (sync and async compact readers).
pub fn skip_state_compact(input: &[u8], t: u8) -> Option<String> {
    let r = catch_unwind(AssertUnwindSafe(|| -> Option<String> {
        let tt = crate::interp::ttype(t);
        let mut b = Bytes::copy_from_slice(input);
        let mut p = compact::TCompactInputProtocol::new(&mut b);
        let s0 = p.verif_state();
        if p.skip(tt).is_err() {
            return None; // a failing skip is judged by the other checks
        }
        let s1 = p.verif_state();
        if s0 != s1 {
            return Some(format!("sync: before {s0:?} after {s1:?}"));
        }
        let mut rd = ScriptedReader::new(input.to_vec(), vec![], 7);
        let mut ap = compact::TAsyncCompactProtocol::new(&mut rd);
        let a0 = ap.verif_state();
        let ok = block_on(Box::pin(async { ap.skip(tt).await.is_ok() }), 10_000_000);
        if ok != Some(true) {
            return None;
        }
        let a1 = ap.verif_state();
        if a0 != a1 {
            return Some(format!("async: before {a0:?} after {a1:?}"));
        }
        None
    }));
    r.unwrap_or(None)
}

/// The unchecked reader's `skip` must be called right after `read_field_begin`: input is a field
/// header followed by the value. Returns (reported, consumed including the 3 header bytes).
pub fn skip_field_unsafe(input: &[u8]) -> Result<(usize, usize), String> {
    let r = catch_unwind(AssertUnwindSafe(|| -> Result<(usize, usize), String> {
        let mut b = Bytes::copy_from_slice(input);
        let mut p = unsafe { binary_unsafe::TBinaryUnsafeInputProtocol::new(&mut b) };
        let c0 = p.consumed();
        let f = p.read_field_begin().map_err(|e| format!("err: {e}"))?;
        let n = p.skip(f.field_type).map_err(|e| format!("err: {e}"))?;
        Ok((n, p.consumed() - c0))
    }));
    match r {
        Ok(x) => x,
        Err(e) => Err(panic_msg(e)),
    }
}

/// `skip_field_unsafe` with the iteration events of the skipper's loop (hook `verif_skip`):
/// (result, events (ttype, index relative to the first iteration, len, stack), final index relative).
pub type SkipEvents = Vec<(u8, usize, usize, Vec<(u8, u8, u32)>)>;
pub fn skip_field_unsafe_traced(input: &[u8]) -> (Result<(usize, usize), String>, SkipEvents, usize) {
    let mut evs: SkipEvents = vec![];
    let mut fin = 0usize;
    let r = catch_unwind(AssertUnwindSafe(|| -> Result<(usize, usize), String> {
        let mut b = Bytes::copy_from_slice(input);
        let mut p = unsafe { binary_unsafe::TBinaryUnsafeInputProtocol::new(&mut b) };
        let c0 = p.consumed();
        let f = p.read_field_begin().map_err(|e| format!("err: {e}"))?;
        binary_unsafe::verif_skip::start();
        let res = p.skip(f.field_type);
        evs = binary_unsafe::verif_skip::take();
        fin = p.verif_cursor().0;
        let n = res.map_err(|e| format!("err: {e}"))?;
        Ok((n, p.consumed() - c0))
    }));
    let base = evs.first().map(|e| e.1).unwrap_or(0);
    for e in evs.iter_mut() {
        e.1 -= base;
    }
    let fin = fin.saturating_sub(base);
    match r {
        Ok(x) => (x, evs, fin),
        Err(e) => (Err(panic_msg(e)), evs, fin),
    }
}

// ---------------------------------------------------------------- asynchronous drivers
use crate::aio::{block_on, read_tree_async, Sched, ScriptedReader};
use pilota::thrift::TAsyncInputProtocol;

#[derive(Default, Debug)]
pub struct AsyncOut {
    pub values: Vec<Tree>,
    pub err: Option<String>,
    /// bytes taken from the stream
    pub taken: usize,
    /// stream position after each completed value
    pub ends: Vec<usize>,
    pub max_cap: usize,
    pub polls: usize,
    pub pendings: usize,
    pub hung: bool,
    pub poll_log: Vec<(usize, Option<usize>)>,
}

async fn run_async<P: TAsyncInputProtocol>(p: &mut P, types: &[u8], skip: bool) -> (Vec<Tree>, Option<String>) {
    let mut vals = Vec::new();
    for (i, t) in types.iter().enumerate() {
        if skip {
            if let Err(e) = p.skip(crate::interp::ttype(*t)).await {
                return (vals, Some(format!("err: {e}")));
            }
            vals.push(Tree::Bool(true));
        } else {
            match read_tree_async(p, *t, i).await {
                Ok(v) => vals.push(v),
                Err(e) => return (vals, Some(format!("err: {e}"))),
            }
        }
    }
    (vals, None)
}

/// Decode (or skip) values of the given wire types from a scripted stream.
/// `eof_at`: the stream ends after that many bytes (None = all of `input`).
pub fn decode_async(proto: Proto, input: &[u8], types: &[u8], sched: Vec<Sched>, default_chunk: usize, eof_at: Option<usize>, skip: bool) -> AsyncOut {
    decode_async_b(proto, input, types, sched, default_chunk, eof_at, skip, None)
}

#[allow(clippy::too_many_arguments)]
pub fn decode_async_b(proto: Proto, input: &[u8], types: &[u8], sched: Vec<Sched>, default_chunk: usize, eof_at: Option<usize>, skip: bool, bounds: Option<Vec<usize>>) -> AsyncOut {
    let mut out = AsyncOut::default();
    let mut rd = ScriptedReader::new(input.to_vec(), sched, default_chunk);
    rd.bounds = bounds;
    if let Some(e) = eof_at {
        rd.eof_at = e.min(input.len());
    }
    let r = catch_unwind(AssertUnwindSafe(|| {
        let res = match proto {
            Proto::Bin => {
                let mut p = binary::TAsyncBinaryProtocol::new(&mut rd);
                block_on(Box::pin(run_async(&mut p, types, skip)), 10_000_000)
            }
            Proto::BinLe => {
                let mut p = binary_le::TAsyncBinaryProtocol::new(&mut rd);
                block_on(Box::pin(run_async(&mut p, types, skip)), 10_000_000)
            }
            Proto::Compact => {
                let mut p = compact::TAsyncCompactProtocol::new(&mut rd);
                block_on(Box::pin(run_async(&mut p, types, skip)), 10_000_000)
            }
            Proto::Unsafe => panic!("harness: the unchecked codec has no asynchronous reader"),
        };
        res
    }));
    match r {
        Ok(Some((vals, err))) => {
            out.values = vals;
            out.err = err;
        }
        Ok(None) => {
            out.hung = true;
            out.err = Some("hang: future not ready after 10M polls".into());
        }
        Err(e) => out.err = Some(panic_msg(e)),
    }
    out.taken = rd.pos;
    out.max_cap = rd.max_cap();
    out.polls = rd.log.len();
    out.pendings = rd.log.iter().filter(|l| l.got.is_none()).count();
    out.poll_log = rd.log.iter().map(|l| (l.cap, l.got)).collect();
    out
}
