#!/bin/bash
# Sensitivity of C15 / C16: tiny mutations of a scratch COPY of pilota-thrift-parser are run through the
# real checks (bin/check) -- /repo and the harness configuration are not touched.
#
# A scratch crate /tmp/idl-scratch/app compiles /verif/harness/src/idl.rs (the very module `drive idl` /
# `drive idl-faults` run) against /tmp/idl-scratch/pilota-thrift-parser; VERIF_IDL_DRIVE points lib/idl.py at that binary.
#   findings/idl-sensitivity.sh            all mutants (each must end with exit=1 and VIOLATION lines)
#   findings/idl-sensitivity.sh patched    the four proposed patches applied (must end with exit=0, no KNOWN-FINDING)
set -u
S=/tmp/idl-scratch
mkdir -p $S/app/src
rm -rf $S/pilota-thrift-parser && cp -r /repo/pilota-thrift-parser $S/pilota-thrift-parser
cat > $S/pilota-thrift-parser/Cargo.toml <<'EOF'
[package]
name = "pilota-thrift-parser"
version = "0.0.0"
edition = "2024"
[dependencies]
nom = "7"
EOF
cat > $S/app/Cargo.toml <<'EOF'
[package]
name = "idlscratch"
version = "0.0.0"
edition = "2021"
[workspace]
[dependencies]
pilota-thrift-parser = { path = "../pilota-thrift-parser" }
serde = { version = "1", features = ["derive"] }
serde_json = { version = "1", features = ["unbounded_depth"] }
[profile.dev]
opt-level = 1
debug = 0
overflow-checks = true
EOF
cat > $S/app/src/main.rs <<'EOF'
#[path = "/verif/harness/src/idl.rs"]
mod idl;
pub fn parse_json(s: &str) -> serde_json::Value {
    use serde::Deserialize;
    let mut de = serde_json::Deserializer::from_str(s);
    de.disable_recursion_limit();
    serde_json::Value::deserialize(&mut de).unwrap()
}
fn main() {
    std::panic::set_hook(Box::new(|_| {}));
    let a: Vec<String> = std::env::args().collect();
    match a[1].as_str() {
        "idl" => idl::run(&a[2], &a[3]),
        "idl-faults" => idl::run_faults(&a[2], &a[3], a.get(4).map_or(0, |x| x.parse().unwrap())),
        _ => std::process::exit(2),
    }
}
EOF
[ -f $S/app/Cargo.lock ] || cp /verif/harness/Cargo.lock $S/app/Cargo.lock
export VERIF_IDL_DRIVE=$S/app/target/debug/idlscratch
SRC=$S/pilota-thrift-parser/src

build() { (cd $S/app && timeout 900 cargo build --offline 2>&1 | grep -E "^error" | head -3); }
check() { # label property
  out=$(cd /verif && timeout 1800 bin/check $2 --tier quick 2>&1); rc=$?
  echo "== $1 [$2] exit=$rc violations=$(echo "$out" | grep -c '^VIOLATION') known=$(echo "$out" | grep -c '^KNOWN-FINDING')"
  echo "$out" | grep -A1 '^VIOLATION' | grep '^  ' | head -3
}
mutant() { # label property old new file
  rm -rf $SRC && cp -r /repo/pilota-thrift-parser/src $SRC
  python3 - "$3" "$4" "$SRC/$5" <<'PY'
import sys
old, new, path = sys.argv[1], sys.argv[2], sys.argv[3]
s = open(path).read()
assert s.count(old) >= 1, (old, path)
open(path, "w").write(s.replace(old, new, 1))
PY
  build
  check "$1" $2
}

if [ "${1:-}" = "patched" ]; then
  for p in field-id-overflow keyword-word-boundary layout-blanks lexemes; do patch -p1 -s -d $S < /verif/findings/parser-$p.patch || exit 2; done
  build
  check "all four proposed patches" C15
  check "all four proposed patches" C16
  exit 0
fi

mutant "M1 i16 parsed as I32" C15 '|_| Ty::I16' '|_| Ty::I32' parser/ty.rs
mutant "M2 semicolon is no list separator" C15 'one_of(",;")' 'one_of(",")' parser/mod.rs
mutant "M3 no # comments" C15 'preceded(tag("#"), take_till(|c| c == '"'"'\n'"'"')),' '' parser/mod.rs
mutant "M4 single quotes not accepted" C15 'map(single_quote, |x| Literal(x.into())),' '' parser/literal.rs
mutant "M5 arguments keep default requiredness" C15 'f.attribute = Attribute::Required' 'f.attribute = Attribute::Default' parser/function.rs
mutant "M6 throws dropped" C15 'throws: throws.unwrap_or_default(),' 'throws: Vec::new(),' parser/function.rs
mutant "M7 last namespace rs wins" C15 '.find_map(|n| {' '.rev().find_map(|n| {' parser/thrift.rs
mutant "M8 integer constant unwrap" C16 'let d = FromStr::from_str(d)?;' 'let d = <i64 as FromStr>::from_str(d).unwrap();' parser/constant.rs
rm -rf $SRC && cp -r /repo/pilota-thrift-parser/src $SRC; build
export VERIF_IDL_JUDGED_DEPTH=1024
check "M9 unmodified parser, judged nesting depth raised to 1024" C16
