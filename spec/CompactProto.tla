---------------------------- MODULE CompactProto ----------------------------
(***************************************************************************)
(* As-built model of pilota's compact protocol objects (compact.rs):       *)
(* one operator per trait method, each a function from the private state   *)
(* to the new state plus the bytes appended (writer), the length returned  *)
(* (length pass) or the bytes consumed and value returned (reader).        *)
(*                                                                         *)
(*   writer / length state  w = [last, stack, pend]                        *)
(*       last  : last_write_field_id                                       *)
(*       stack : write_field_id_stack                                      *)
(*       pend  : <<>> or <<id>>  (pending_write_bool_field_identifier)     *)
(*   reader state           r = [last, stack, pv, pid]                     *)
(*       pv    : <<>> or <<0|1>> (pending_read_bool_value)                 *)
(*       pid   : <<>> or <<id>>  (pending_read_bool_field_identifier, set  *)
(*               only by the reader's *length* methods)                    *)
(* In the implementation the length methods of TCompactOutputProtocol      *)
(* mutate the very same fields as the write methods; the model makes that  *)
(* explicit: L* operators take and return a writer state.                  *)
(* A result with ok = FALSE models a panic or an error return.             *)
(* Used by ThriftProto (lock-step model checking) and ThriftTrace (trace   *)
(* validation of the real objects through the verif_state() hook).         *)
(***************************************************************************)
EXTENDS ThriftTypes, TLC

W0 == [last |-> 0, stack |-> <<>>, pend |-> <<>>]
R0 == [last |-> 0, stack |-> <<>>, pv |-> <<>>, pid |-> <<>>]

WRes(w, out) == [ok |-> TRUE, w |-> w, out |-> out]
WBad(w) == [ok |-> FALSE, w |-> w, out |-> <<>>]

Pop(s) == SubSeq(s, 1, Len(s) - 1)
Top(s) == s[Len(s)]

U32Var(n) == UVarint(FromInt(n, 32))

\* write_field_header: short form iff 0 < delta < 15 (compact.rs write_field_header)
Header(ct, id, last) ==
  LET delta == id - last IN
  IF delta > 0 /\ delta < 15 THEN <<delta * 16 + ct>> ELSE <<ct>> \o ZVarint(FromInt(id, 16))

(* ------------------------------- writer -------------------------------- *)
WStructBegin(w) == WRes([w EXCEPT !.stack = Append(w.stack, w.last), !.last = 0], <<>>)
WStructEnd(w) ==
  IF w.pend # <<>> \/ w.stack = <<>> THEN WBad(w)
  ELSE WRes([w EXCEPT !.last = Top(w.stack), !.stack = Pop(w.stack)], <<>>)
WFieldBegin(w, t, id) ==
  IF t = T_BOOL THEN (IF w.pend # <<>> THEN WBad(w) ELSE WRes([w EXCEPT !.pend = <<id>>], <<>>))
  ELSE IF ToCompact(t) < 0 THEN WBad(w)
  ELSE WRes([w EXCEPT !.last = id], Header(ToCompact(t), id, w.last))
WFieldEnd(w)  == IF w.pend # <<>> THEN WBad(w) ELSE WRes(w, <<>>)
WFieldStop(w) == IF w.pend # <<>> THEN WBad(w) ELSE WRes(w, <<0>>)
WMessageEnd(w) == IF w.pend # <<>> THEN WBad(w) ELSE WRes(w, <<>>)
WBool(w, b) ==
  IF w.pend # <<>>
  THEN WRes([w EXCEPT !.last = w.pend[1], !.pend = <<>>], Header(IF b = 1 THEN CT_TRUE ELSE CT_FALSE, w.pend[1], w.last))
  ELSE WRes(w, <<IF b = 1 THEN CT_TRUE ELSE CT_FALSE>>)
WI8(w, byte)   == WRes(w, <<byte>>)
WInt(w, x)     == WRes(w, ZVarint(x))                         \* i16 / i32 / i64 by limb count
WDouble(w, d)  == WRes(w, [i \in 1..8 |-> d[9 - i]])            \* d = 8 bytes, most significant first
WUuid(w, u)    == WRes(w, u)
WBinary(w, b)  == WRes(w, U32Var(Len(b)) \o b)
WCollBegin(w, et, n) ==
  IF ToCompact(et) < 0 THEN WBad(w)
  ELSE WRes(w, IF n <= 14 THEN <<n * 16 + ToCompact(et)>> ELSE <<240 + ToCompact(et)>> \o U32Var(n))
WMapBegin(w, kt, vt, n) ==
  IF n = 0 THEN WRes(w, <<0>>)
  ELSE IF ToCompact(kt) < 0 \/ ToCompact(vt) < 0 THEN WBad(w)
  ELSE WRes(w, U32Var(n) \o <<ToCompact(kt) * 16 + ToCompact(vt)>>)
WCollEnd(w) == WRes(w, <<>>)
WMessageBegin(w, name, mtype, seq32) ==
  WRes(w, <<130, 1 + 32 * mtype>> \o UVarint(seq32) \o U32Var(Len(name)) \o name)

(* ----------------------------- length pass ----------------------------- *)
\* every L* returns [ok, w, n]; the state update is the writer's
LOf(res) == [ok |-> res.ok, w |-> res.w, n |-> Len(res.out)]
LStructBegin(w) == LOf(WStructBegin(w))
LStructEnd(w)   == LOf(WStructEnd(w))
LFieldBegin(w, t, id) == LOf(WFieldBegin(w, t, id))
LFieldEnd(w)    == LOf(WFieldEnd(w))
LFieldStop(w)   == LOf(WFieldStop(w))
LBool(w, b)     == LOf(WBool(w, b))
LI8(w, byte)    == LOf(WI8(w, byte))
LInt(w, x)      == LOf(WInt(w, x))
LDouble(w, d)   == LOf(WDouble(w, d))
LUuid(w, u)     == LOf(WUuid(w, u))
LBinaryN(w, n)  == [ok |-> TRUE, w |-> w, n |-> Len(U32Var(n)) + n]
LCollBegin(w, et, n)   == LOf(WCollBegin(w, et, n))
LMapBegin(w, kt, vt, n) == LOf(WMapBegin(w, kt, vt, n))
LCollEnd(w) == LOf(WCollEnd(w))

(* ------------------------------- reader -------------------------------- *)
\* results: [ok, r, n (bytes consumed), ...returned value fields]
RBad(r) == [ok |-> FALSE, r |-> r, n |-> 0]
RStructBegin(r) == [ok |-> TRUE, r |-> [r EXCEPT !.stack = Append(r.stack, r.last), !.last = 0], n |-> 0]
RStructEnd(r) ==
  IF r.stack = <<>> THEN RBad(r)
  ELSE [ok |-> TRUE, r |-> [r EXCEPT !.last = Top(r.stack), !.stack = Pop(r.stack)], n |-> 0]
\* read_field_begin on input `b` at offset 0: returns t (T_STOP for stop) and id
RFieldBegin(r, b) ==
  IF Len(b) < 1 THEN RBad(r) @@ [t |-> 0, id |-> 0]
  ELSE LET h == b[1]
           ct == h % 16
           delta == h \div 16
       IN IF ct > 13 THEN RBad(r) @@ [t |-> 0, id |-> 0]
          ELSE IF ct = CT_STOP THEN [ok |-> TRUE, r |-> r, n |-> 1, t |-> T_STOP, id |-> 0]
          ELSE LET r1 == IF ct = CT_TRUE THEN [r EXCEPT !.pv = <<1>>]
                         ELSE IF ct = CT_FALSE THEN [r EXCEPT !.pv = <<0>>] ELSE r
               IN IF delta # 0
                  THEN LET nid == ToInt(FromInt(r.last + delta, 16)) IN     \* wrapping add
                       [ok |-> TRUE, r |-> [r1 EXCEPT !.last = nid], n |-> 1, t |-> FromCompact(ct), id |-> nid]
                  ELSE LET z == DecZVarint(b, 1, 16) IN
                       IF ~z.ok THEN RBad(r1) @@ [t |-> 0, id |-> 0]
                       ELSE [ok |-> TRUE, r |-> [r1 EXCEPT !.last = ToInt(z.val)], n |-> 1 + z.n,
                             t |-> FromCompact(ct), id |-> ToInt(z.val)]
RFieldEnd(r) == [ok |-> TRUE, r |-> r, n |-> 0]
\* read_bool completes a bool field announced through field_begin_len (the announcement is dropped)
RBool(r, b) ==
  IF r.pv # <<>> THEN [ok |-> TRUE, r |-> [r EXCEPT !.pv = <<>>, !.pid = <<>>], n |-> 0, b |-> r.pv[1]]
  ELSE IF Len(b) < 1 \/ b[1] \notin {CT_TRUE, CT_FALSE} THEN RBad(r) @@ [b |-> 0]
  ELSE [ok |-> TRUE, r |-> [r EXCEPT !.pid = <<>>], n |-> 1, b |-> IF b[1] = CT_TRUE THEN 1 ELSE 0]

\* --- the READER's length methods (impl TLengthProtocol for TCompactInputProtocol): emitted decoders call them to keep
\* track of offsets.  field_begin_len(Bool) only announces the field (pid); for other types it computes a header length
\* from the CURRENT last id -- which read_field_begin has already advanced, so the delta is 0 and the long form is
\* reported whatever the header on the wire looked like (as built; it matters only for retention on compact, which no
\* listed property covers).  Results: [ok, r, n (length returned)]
RLFieldBegin(r, t, id) ==
  IF t = T_BOOL THEN (IF r.pid # <<>> THEN RBad(r) ELSE [ok |-> TRUE, r |-> [r EXCEPT !.pid = <<id>>], n |-> 0])
  ELSE LET delta == id - r.last IN
       [ok |-> TRUE, r |-> [r EXCEPT !.last = id],
        n |-> IF delta > 0 /\ delta < 15 THEN 1 ELSE 1 + Len(ZVarint(FromInt(id, 16)))]
RLHeader(r, id) == LET delta == id - r.last IN IF delta > 0 /\ delta < 15 THEN 1 ELSE 1 + Len(ZVarint(FromInt(id, 16)))
RLStructBegin(r) == [ok |-> TRUE, r |-> [r EXCEPT !.stack = Append(r.stack, r.last), !.last = 0], n |-> 0]
RLStructEnd(r) == IF r.pid # <<>> \/ r.stack = <<>> THEN RBad(r)
                  ELSE [ok |-> TRUE, r |-> [r EXCEPT !.last = Top(r.stack), !.stack = Pop(r.stack)], n |-> 0]
\* bool_len completes an announced bool field: its header is sized now (and the last id advanced); a bare bool is one byte
RLBool(r) == IF r.pid # <<>> THEN [ok |-> TRUE, r |-> [r EXCEPT !.last = r.pid[1], !.pid = <<>>], n |-> RLHeader(r, r.pid[1])]
             ELSE [ok |-> TRUE, r |-> r, n |-> 1]
RLFieldEnd(r) == IF r.pid # <<>> THEN RBad(r) ELSE [ok |-> TRUE, r |-> r, n |-> 0]
RLFieldStop(r) == IF r.pid # <<>> THEN RBad(r) ELSE [ok |-> TRUE, r |-> r, n |-> 1]
RI8(r, b) == IF Len(b) < 1 THEN RBad(r) @@ [v |-> <<0>>] ELSE [ok |-> TRUE, r |-> r, n |-> 1, v |-> <<b[1]>>]
RInt(r, b, W) == LET z == DecZVarint(b, 0, W) IN
                 IF ~z.ok THEN RBad(r) @@ [v |-> ZeroInt(W)] ELSE [ok |-> TRUE, r |-> r, n |-> z.n, v |-> z.val]
RDouble(r, b) == IF Len(b) < 8 THEN RBad(r) @@ [v |-> <<>>] ELSE [ok |-> TRUE, r |-> r, n |-> 8, v |-> [i \in 1..8 |-> b[9 - i]]]
RUuid(r, b) == IF Len(b) < 16 THEN RBad(r) @@ [v |-> <<>>] ELSE [ok |-> TRUE, r |-> r, n |-> 16, v |-> SubSeq(b, 1, 16)]
RBinary(r, b) ==
  LET l == DecUVarint(b, 0, 32) IN
  IF ~l.ok \/ ~FitsNat31(l.val) THEN RBad(r) @@ [v |-> <<>>]
  ELSE IF ToNat(l.val) > Len(b) - l.n THEN RBad(r) @@ [v |-> <<>>]
  ELSE [ok |-> TRUE, r |-> r, n |-> l.n + ToNat(l.val), v |-> SubSeq(b, l.n + 1, l.n + ToNat(l.val))]
RCollBegin(r, b) ==
  IF Len(b) < 1 \/ b[1] % 16 \notin 1..13 THEN RBad(r) @@ [t |-> 0, cnt |-> 0]
  ELSE IF b[1] \div 16 # 15 THEN [ok |-> TRUE, r |-> r, n |-> 1, t |-> FromCompact(b[1] % 16), cnt |-> b[1] \div 16]
  ELSE LET l == DecUVarint(b, 1, 32) IN
       IF ~l.ok \/ ~FitsNat31(l.val) THEN RBad(r) @@ [t |-> 0, cnt |-> 0]
       ELSE [ok |-> TRUE, r |-> r, n |-> 1 + l.n, t |-> FromCompact(b[1] % 16), cnt |-> ToNat(l.val)]
RMapBegin(r, b) ==
  LET l == DecUVarint(b, 0, 32) IN
  IF ~l.ok \/ ~FitsNat31(l.val) THEN RBad(r) @@ [kt |-> 0, vt |-> 0, cnt |-> 0]
  ELSE IF ToNat(l.val) = 0 THEN [ok |-> TRUE, r |-> r, n |-> l.n, kt |-> T_STOP, vt |-> T_STOP, cnt |-> 0]
  ELSE IF Len(b) < l.n + 1 \/ b[l.n + 1] \div 16 \notin 1..13 \/ b[l.n + 1] % 16 \notin 1..13
       THEN RBad(r) @@ [kt |-> 0, vt |-> 0, cnt |-> 0]
  ELSE [ok |-> TRUE, r |-> r, n |-> l.n + 1, kt |-> FromCompact(b[l.n + 1] \div 16),
        vt |-> FromCompact(b[l.n + 1] % 16), cnt |-> ToNat(l.val)]
RCollEnd(r) == [ok |-> TRUE, r |-> r, n |-> 0]
=============================================================================
