------------------------------- MODULE Boxing -------------------------------
(***************************************************************************)
(* Recursive types and boxing (property C14): which IDL type graphs yield  *)
(* Rust types of finite size.                                              *)
(*                                                                         *)
(* A graph g: kind[n] \in {"struct", "union", "typedef"} and out[n], the   *)
(* sequence of member edges [to, via] of n; via says how the member refers *)
(* to its target: "direct" (the type itself), "opt" (optional field of     *)
(* the type itself), "list", "map" (value type of a map).  A typedef has   *)
(* one "direct" edge.                                                      *)
(*                                                                         *)
(* IDEAL.  In the generated Rust, a member by value (direct / opt: T or    *)
(* Option<T>, and a newtype) contains its target; Vec / map members and    *)
(* Box are indirections.  The types have finite size iff no cycle of the   *)
(* by-value relation remains after boxing.                                 *)
(*                                                                         *)
(* AS BUILT (middle/type_graph.rs, plugin/mod.rs BoxedPlugin).  The type   *)
(* graph holds an edge for every member whose type is DIRECTLY a path      *)
(* type (struct fields, union variants, typedef targets; container         *)
(* members add no edge).  BoxedPlugin boxes a STRUCT field of direct path  *)
(* type iff its target reaches the struct in that graph.  Union variants   *)
(* and typedefs are never boxed.                                           *)
(*                                                                         *)
(* Theorem checked exhaustively by MCBoxing: after as-built boxing a       *)
(* by-value cycle remains iff the graph has a by-value cycle that runs     *)
(* through union variants and typedefs only.                               *)
(***************************************************************************)
EXTENDS Integers, Sequences, FiniteSets

ByVal(via) == via \in {"direct", "opt"}

\* member edges as a set of records [from, i, to, via]
EdgeSet(g) == UNION {{[from |-> n, i |-> i, to |-> g.out[n][i].to, via |-> g.out[n][i].via] : i \in DOMAIN g.out[n]} : n \in DOMAIN g.out}

\* reflexive-transitive reachability over a set of edges (three nodes: two rounds suffice, computed generally)
RECURSIVE ReachFrom(_, _, _)
ReachFrom(es, seen, frontier) ==
  IF frontier = {} THEN seen
  ELSE LET next == {e.to : e \in {x \in es : x.from \in frontier}} \ seen IN ReachFrom(es, seen \cup next, next)
Reaches(es, a, b) == b \in ReachFrom(es, {a}, {a})
\* a lies on a cycle of es
OnCycle(es, a) == \E e \in es : e.from = a /\ Reaches(es, e.to, a)

\* the as-built type graph: direct path-typed members only
AsBuiltGraph(g) == {e \in EdgeSet(g) : ByVal(e.via)}
\* as-built boxing decision for edge e
Boxed(g, e) == g.kind[e.from] = "struct" /\ ByVal(e.via) /\ Reaches(AsBuiltGraph(g), e.to, e.from)
\* what still contains its target by value in the emitted Rust
ByValueAfter(g) == {e \in EdgeSet(g) : ByVal(e.via) /\ ~Boxed(g, e)}
FiniteSize(g) == \A n \in DOMAIN g.out : ~OnCycle(ByValueAfter(g), n)

\* the characterisation
UnionOnly(g) == {e \in EdgeSet(g) : ByVal(e.via) /\ g.kind[e.from] \in {"union", "typedef"}}
HasUnionOnlyCycle(g) == \E n \in DOMAIN g.out : OnCycle(UnionOnly(g), n)
Characterisation(g) == FiniteSize(g) <=> ~HasUnionOnlyCycle(g)

\* is the graph recursive at all (through any kind of member)?
Recursive(g) == \E n \in DOMAIN g.out : OnCycle(EdgeSet(g), n)
=============================================================================
