---------------------------- MODULE MCThriftProto ----------------------------
(* Model constants for ThriftProto and the transition-table emitter: with    *)
(* VERIF_EMIT_DIR set, every distinct state writes its enabled steps (calls, *)
(* bytes, post-state) to one JSON file; lib/walks.py turns the table into     *)
(* call sequences that cover every transition.  Emission needs -workers 1.   *)
EXTENDS ThriftProto, Json, IOUtils, SequencesExt
MCIds == {1, 2, 15, 16, 17, 300, -1, 32767, -32768}
MCIdsQuick == {1, 15, 16, 300, -1, 32767}
EmitDir == IF "VERIF_EMIT_DIR" \in DOMAIN IOEnv THEN IOEnv.VERIF_EMIT_DIR ELSE ""
ASSUME TLCSet(1, 0)
Emit == \/ EmitDir = ""
        \/ /\ TLCSet(1, TLCGet(1) + 1)
           /\ JsonSerialize(EmitDir \o "/s" \o ToString(TLCGet(1)) \o ".json",
                            [pre |-> st, steps |-> SetToSeq(Steps(st))])
=============================================================================
