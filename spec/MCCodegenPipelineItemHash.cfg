SPECIFICATION Spec
CONSTANTS
  Mods <- MCMods
  Files <- MCFiles
  Nested <- MCNested
  W = 3
  NestedOrder = "decl"
  FileOrder = "input"
  ItemOrder = "hash"
  Stem <- MCStem
  NameScope = "module"
INVARIANT OutputIsFunctionOfInput
PROPERTY Terminates
CHECK_DEADLOCK FALSE
