SPECIFICATION TSpec
CONSTANTS
  Msgs = {}
  MaxPend = 1000000
INVARIANTS NoOverReadT
POSTCONDITION TraceAccepted
CHECK_DEADLOCK FALSE
