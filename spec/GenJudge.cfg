
