--------------------------- MODULE IterSkipTrace ---------------------------
(***************************************************************************)
(* Trace validation of the iterative skipper: the events the hook emits at *)
(* the head of the loop of TBinaryUnsafeInputProtocol::skip_till_depth     *)
(* (`drive skiptrace`) must be a behaviour of IterSkip.                    *)
(*   {"op":"sreset","input":[bytes at and behind the value],"t":type,      *)
(*    "n":length of the value's encoding}                                  *)
(*   {"op":"iter","tt":type handled,"i":cursor,"len":accounted,            *)
(*    "stack":[[t0,t1,slots],..]}       state BEFORE the iteration         *)
(*   {"op":"sdone","ret":returned length | -1,"i":final cursor}            *)
(* Every logged field is bound, so the search is linear; the properties   *)
(* of IterSkip (ExactOnDone, NeverBehind, LenIsIndex) are conjuncts of the *)
(* trace actions, so that a violation is a rejection AT THAT EVENT.        *)
(***************************************************************************)
EXTENDS IterSkip, Json, IOUtils

Rec == ndJsonDeserialize(IOEnv.VERIF_TRACE)
VARIABLE l
tvars == <<svars, l>>

StackOf(js) == [k \in 1..Len(js) |-> [t |-> <<js[k][1], js[k][2]>>, n |-> js[k][3]]]
IsEv(e) == l <= Len(Rec) /\ Rec[l].op = e /\ l' = l + 1

TReset == IsEv("sreset") /\ Start(Rec[l].input, Rec[l].t, Rec[l].n)
TIter  == /\ IsEv("iter") /\ pc = "loop"
          /\ ttype = Rec[l].tt /\ index = Rec[l].i /\ len = Rec[l].len /\ stack = StackOf(Rec[l].stack)
          /\ index < expect /\ len = index          \* NeverBehind, LenIsIndex: an iteration starts inside the value
          /\ Step
TDone  == /\ IsEv("sdone") /\ pc = "done" /\ ret = Rec[l].ret
          /\ (ret >= 0 => index = Rec[l].i)
          /\ ret = expect /\ index = expect /\ stack = <<>>      \* ExactOnDone (recorded inputs are well-formed)
          /\ UNCHANGED svars

TraceInit == Idle /\ l = 1
TraceNext == TReset \/ TIter \/ TDone
TraceSpec == TraceInit /\ [][TraceNext]_tvars

TraceAccepted ==
  LET d == TLCGet("stats").diameter IN
  IF d - 1 = Len(Rec) THEN TRUE
  ELSE Print(<<"REJECTED", d, Rec[d]>>, FALSE)
=============================================================================
