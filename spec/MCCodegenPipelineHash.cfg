SPECIFICATION Spec
CONSTANTS
  Mods <- MCMods
  Files <- MCFiles
  Nested <- MCNested
  W = 3
  NestedOrder = "hash"
  FileOrder = "input"
  ItemOrder = "id"
INVARIANT OutputIsFunctionOfInput
PROPERTY Terminates
CHECK_DEADLOCK FALSE
