
