------------------------------- MODULE PbJudge -------------------------------
(* The specification as judge of protobuf outputs: each record of VERIF_TRACE *)
(* is {id, sid, ty, ref, out}; the bytes `out` produced by pilota must decode, *)
(* under the schema, to the value the reference bytes `ref` denote, and every  *)
(* varint in them must carry the number its declared type prescribes (Narrow). *)
EXTENDS PbSchema, Json, IOUtils
Schemas == ndJsonDeserialize(IOEnv.VERIF_SCHEMAS)
Trc == ndJsonDeserialize(IOEnv.VERIF_TRACE)
SchemaOf(sid) == Schemas[CHOOSE i \in 1..Len(Schemas) : Schemas[i].name = sid]
Good(e) == LET D == SchemaOf(e.sid)
               a == Dec(D, e.ty, e.out)
               b == Dec(D, e.ty, e.ref)
           IN a.ok /\ b.ok /\ a.v = b.v /\ Narrow(D, e.ty, e.out)
ASSUME ndJsonSerialize(IOEnv.VERIF_OUT, SetToSeq({[id |-> Trc[i].id] : i \in {j \in 1..Len(Trc) : ~Good(Trc[j])}}))
=============================================================================
