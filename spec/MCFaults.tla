------------------------------ MODULE MCFaults ------------------------------
(***************************************************************************)
(* Fault positions for the totality properties C09 / C19.                  *)
(* For every selected value tree the reference encoders are evaluated      *)
(* together with a MAP of the encoding: where every length, count, type    *)
(* code and field id sits (offset, width, kind).  The fault actions        *)
(*    Truncate(k), FlipBit(k, b), Overwrite(mark, boundary value)          *)
(* are then enumerated over that map by lib/faults.py; the oracle is the   *)
(* statement of C09 itself (value or error; never a crash, a hang or an    *)
(* allocation out of proportion; every strict prefix of a struct is an     *)
(* error -- the last is a theorem of the reference decoders, checked by    *)
(* MCVectors.PrefixesFail).                                                *)
(***************************************************************************)
EXTENDS EncMap, TLC, Json, IOUtils

Tier == IF "VERIF_TIER" \in DOMAIN IOEnv THEN IOEnv.VERIF_TIER ELSE "quick"
Sel == IF Tier = "thorough"
       THEN SetToSeq(F5) \o SetToSeq(F6) \o SetToSeq({t \in F4 : BinLen(t) <= 60}) \o SetToSeq({t \in F3 : BinLen(t) <= 40})
       ELSE SetToSeq({t \in F5 : BinLen(t) <= 45}) \o <<CHOOSE t \in F6 : TRUE>>
              \o SetToSeq({t \in F4 : BinLen(t) <= 30 /\ BinLen(t) >= 12 /\ (t.k = "map" => t.kt = T_BINARY)})
Case(i) ==
  LET v == Sel[i] IN
  [id |-> i, t |-> TTypeOf(v), v |-> v, bin |-> BinEnc(v, FALSE), binle |-> BinEnc(v, TRUE), cs |-> CEncF(v, "p15"),
   mbin |-> BinMarks(v), mc |-> CMarks(v)]
\* the map is consistent with the encoding: every mark lies inside it
ASSUME \A i \in 1..Len(Sel) :
         LET c == Case(i) IN
         /\ \A j \in 1..Len(c.mbin) : c.mbin[j].pos + c.mbin[j].w <= Len(c.bin)
         /\ \A j \in 1..Len(c.mc) : c.mc[j].pos + c.mc[j].w <= Len(c.cs)
ASSUME ndJsonSerialize(IOEnv.VERIF_OUT, [i \in 1..Len(Sel) |-> Case(i)])
=============================================================================
