------------------------------ MODULE MCAsync ------------------------------
(* Emits, for every tree of the universe, its encodings together with the   *)
(* request sequence the asynchronous protocols must issue (AsyncReads).    *)
EXTENDS ThriftUniverse, ThriftBinary, ThriftCompact, AsyncReads, ThriftSkip, TLC, Json, IOUtils
Tier == IF "VERIF_TIER" \in DOMAIN IOEnv THEN IOEnv.VERIF_TIER ELSE "quick"
Sel == IF Tier = "thorough" THEN QuickTrees
       ELSE SetToSeq(F1) \o SetToSeq(F5) \o SetToSeq(F6) \o SetToSeq({t \in F3 : t.fs[1].id \in {1, -1, 32767}})
              \o SetToSeq({t \in F4 : (t.k = "map" => Len(t.kvs) <= 2) /\ (t.k # "map" => Len(t.es) \in {0, 2, 15})})
Case(i) ==
  LET v == Sel[i]  b == BinEnc(v, FALSE)  c == CEnc(v)  rb == BinReads(v)  rc == CReads(v) IN
  IF Assert(Sum(rb, 1) = Len(b) /\ Sum(rc, 1) = Len(c), <<"reads do not add up", v>>)
  THEN [id |-> i, t |-> TTypeOf(v), need |-> Need(v), v |-> v, bin |-> b, binle |-> BinEnc(v, TRUE), cs |-> c,
        rbin |-> rb, rc |-> rc]
  ELSE [id |-> i]
ASSUME ndJsonSerialize(IOEnv.VERIF_OUT, [i \in 1..Len(Sel) |-> Case(i)])
=============================================================================
