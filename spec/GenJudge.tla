------------------------------ MODULE GenJudge ------------------------------
(***************************************************************************)
(* The specification as judge of what generated code produced: each record *)
(* of VERIF_TRACE is {id, proto, exp: tree, out: bytes, u: 0|1}; the bytes *)
(* are decoded by the REFERENCE decoder (ThriftBinary / ThriftCompact) and *)
(* the tree compared with the expected one -- sets and maps as unordered   *)
(* collections; with u = 1 struct fields as a set as well (C13: a reader   *)
(* with the full schema recovers the value whatever the field order).      *)
(* Prints the ids that fail.                                               *)
(***************************************************************************)
EXTENDS ThriftSchema, ThriftBinary, ThriftCompact, TLC, Json, IOUtils

Rec == ndJsonDeserialize(IOEnv.VERIF_TRACE)

Good(e) ==
  LET compact == e.proto = "compact"
      d == IF compact THEN CDec(T_STRUCT, e.out, 0) ELSE BinDec(T_STRUCT, e.out, 0, e.proto = "binle")
  IN /\ d.ok /\ d.pos = Len(e.out)
     /\ IF e.u = 1 THEN CanonU(d.val, compact) = CanonU(e.exp, compact)
        ELSE Canon(d.val, compact) = Canon(e.exp, compact)

Bad == {i \in 1..Len(Rec) : ~Good(Rec[i])}
ASSUME PrintT(<<"JUDGED", Len(Rec)>>)
ASSUME ndJsonSerialize(IOEnv.VERIF_OUT, SetToSeq({[id |-> Rec[i].id] : i \in Bad}))
=============================================================================
