SPECIFICATION Spec
CONSTANTS
  Msgs <- MCMsgs
  MaxPend = 2
INVARIANTS NoOverRead Exact EofIsError ErrOnlyOnEof
PROPERTY Terminates
CHECK_DEADLOCK FALSE
