--------------------------- MODULE ThriftUniverse ---------------------------
(***************************************************************************)
(* The bounded universe of Thrift value trees used for vector generation   *)
(* and for checking the model-level theorems of the reference codecs.      *)
(* Leaves are boundary classes (DESIGN.md appendix B); composite trees are *)
(* built in families that each target one piece of codec state (field-id   *)
(* deltas, pending bool, nested-struct context, container headers, ...).   *)
(***************************************************************************)
EXTENDS ThriftTypes, FiniteSets, SequencesExt

Leaf(k, v) == [k |-> k, v |-> v]
Fld(id, x) == [id |-> id, x |-> x]
Struct(fs) == [k |-> "struct", fs |-> fs]
List(et, es) == [k |-> "list", et |-> et, es |-> es]
SetV(et, es) == [k |-> "set", et |-> et, es |-> es]
Map(kt, vt, kvs) == [k |-> "map", kt |-> kt, vt |-> vt, kvs |-> kvs]

\* 64-bit helpers: 2^e, and 2^e - 1, as limb ints
P2(e)   == [i \in 1..4 |-> IF (e \div 16) + 1 = i THEN Pow2(e % 16) ELSE 0]
Low1(e) == [i \in 1..4 |-> IF i < (e \div 16) + 1 THEN 65535
                           ELSE IF i = (e \div 16) + 1 THEN Pow2(e % 16) - 1 ELSE 0]
I64Classes(e) == {P2(e), Low1(e), Compl(Low1(e)), Compl(P2(e))}     \* 2^e, 2^e-1, -2^e, -2^e-1

I32Min == -2147483647 - 1
SmallInts == {0, 1, -1, 63, 64, -64, -65, 8191, 8192, -8192, -8193}
I16Vals == {FromInt(n, 16) : n \in SmallInts \cup {32767, -32768, 258}}
I32Vals == {FromInt(n, 32) : n \in SmallInts \cup {1048575, 1048576, -1048576, -1048577,
                                                   134217727, 134217728, -134217728, -134217729,
                                                   2147483647, I32Min, 16909060}}
I64Vals == {SignExtend(FromInt(n, 32), 64) : n \in SmallInts \cup {1048576, -1048577, 134217728, -134217729, 2147483647, I32Min}}
             \cup UNION {I64Classes(e) : e \in {34, 41, 48, 55, 62}}
             \cup {Low1(63), Compl(Low1(63)), <<1800, 1286, 772, 258>>}    \* MAX, MIN, 0x0102030405060708
I8Vals == {0, 1, 255, 127, 128, 18}
DoubleVals == { <<0,0,0,0,0,0,0,0>>, <<128,0,0,0,0,0,0,0>>, <<63,248,0,0,0,0,0,0>>, <<192,2,0,0,0,0,0,0>>,
                <<0,0,0,0,0,0,0,1>>, <<127,240,0,0,0,0,0,0>>, <<255,240,0,0,0,0,0,0>>,
                <<127,248,0,0,0,0,0,0>>, <<127,240,0,0,0,0,0,42>>, <<1,2,3,4,5,6,7,8>> }
UuidVals == { Fill(16, 0), [i \in 1..16 |-> i - 1], Fill(16, 255) }
NonAscii == <<195, 169, 226, 130, 172, 240, 159, 152, 128>>          \* "e-acute, euro sign, emoji"
StrOfLen(n) == IF n >= 9 THEN NonAscii \o [i \in 1..(n - 9) |-> 97 + (i % 26)] ELSE [i \in 1..n |-> 97 + (i % 26)]
BinOfLen(n) == [i \in 1..n |-> (i * 7 + 250) % 256]                   \* hits 0, 255 and everything between

SmallLens == {0, 1, 2, 9, 127, 128}

Bools   == {Leaf("bool", <<0>>), Leaf("bool", <<1>>)}
I8s     == {Leaf("i8", <<b>>) : b \in I8Vals}
I16s    == {Leaf("i16", x) : x \in I16Vals}
I32s    == {Leaf("i32", x) : x \in I32Vals}
I64s    == {Leaf("i64", x) : x \in I64Vals}
Doubles == {Leaf("double", x) : x \in DoubleVals}
Uuids   == {Leaf("uuid", x) : x \in UuidVals}
Bins    == {Leaf("binary", BinOfLen(n)) : n \in SmallLens}
Strs    == {Leaf("string", StrOfLen(n)) : n \in SmallLens}
AllLeaves == Bools \cup I8s \cup I16s \cup I32s \cup I64s \cup Doubles \cup Uuids \cup Bins \cup Strs

\* one representative per leaf kind (used where the leaf value is not the point)
RepLeaves == { Leaf("bool", <<1>>), Leaf("bool", <<0>>), Leaf("i8", <<255>>), Leaf("i16", FromInt(-8193, 16)),
               Leaf("i32", FromInt(16909060, 32)), Leaf("i64", <<1800, 1286, 772, 258>>),
               Leaf("double", <<63,248,0,0,0,0,0,0>>), Leaf("uuid", [i \in 1..16 |-> i - 1]),
               Leaf("binary", BinOfLen(3)), Leaf("string", StrOfLen(11)) }
RepOf(t) == CHOOSE l \in RepLeaves : TTypeOf(l) = t /\ l.k # "string" /\ l.v # <<0>>

\* field ids: boundary classes for the delta / long-form decision and the i16 range
IdVals == {1, 2, 15, 16, 17, 127, 128, 300, 32767, 0, -1, -32768}
\* ordered pairs (first id, second id): delta 1, 14, 15, 16, 0 (repeat), negative, big jump, extremes
IdPairs == { <<1, 2>>, <<1, 15>>, <<1, 16>>, <<1, 17>>, <<5, 5>>, <<16, 1>>, <<300, 301>>, <<300, 315>>,
             <<1, 32767>>, <<32767, 1>>, <<-1, 1>>, <<-1, 14>>, <<-32768, -32767>>, <<32766, 32767>>,
             <<-1, 32767>>, <<32767, -32768>>, <<0, 1>>, <<0, 15>>, <<127, 128>> }

EmptyStruct == Struct(<<>>)
\* composite representatives per wire type, used as elements / keys / values
RepStruct == Struct(<<Fld(1, Leaf("i32", FromInt(7, 32))), Fld(2, Leaf("bool", <<1>>))>>)
RepList   == List(T_I16, <<Leaf("i16", FromInt(-1, 16)), Leaf("i16", FromInt(300, 16))>>)
RepSet    == SetV(T_BINARY, <<Leaf("string", StrOfLen(2)), Leaf("string", StrOfLen(1))>>)
RepMap    == Map(T_I8, T_BOOL, << <<Leaf("i8", <<1>>), Leaf("bool", <<0>>)>>, <<Leaf("i8", <<2>>), Leaf("bool", <<1>>)>> >>)
RepAny(t) == CASE t = T_STRUCT -> RepStruct [] t = T_LIST -> RepList [] t = T_SET -> RepSet
               [] t = T_MAP -> RepMap [] OTHER -> RepOf(t)
\* a second, different value of the same wire type (for 2-element containers / distinct keys)
Rep2(t) == CASE t = T_BOOL -> Leaf("bool", <<0>>) [] t = T_I8 -> Leaf("i8", <<7>>)
             [] t = T_I16 -> Leaf("i16", FromInt(64, 16)) [] t = T_I32 -> Leaf("i32", FromInt(-65, 32))
             [] t = T_I64 -> Leaf("i64", P2(41)) [] t = T_DOUBLE -> Leaf("double", <<192,2,0,0,0,0,0,0>>)
             [] t = T_UUID -> Leaf("uuid", Fill(16, 255)) [] t = T_BINARY -> Leaf("binary", BinOfLen(1))
             [] t = T_STRUCT -> Struct(<<Fld(16, Leaf("i8", <<3>>))>>)
             [] t = T_LIST -> List(T_BOOL, <<Leaf("bool", <<1>>), Leaf("bool", <<0>>), Leaf("bool", <<1>>)>>)
             [] t = T_SET -> SetV(T_I32, <<>>)
             [] t = T_MAP -> Map(T_BINARY, T_I32, <<>>)
Reps(t, n) == [i \in 1..n |-> IF i % 2 = 1 THEN RepAny(t) ELSE Rep2(t)]
\* n distinct keys of type t (maps must not repeat keys): vary an integer payload where possible
KeyN(t, i) == CASE t = T_I8 -> Leaf("i8", <<i>>) [] t = T_I16 -> Leaf("i16", FromInt(i * 97, 16))
                [] t = T_I32 -> Leaf("i32", FromInt(i * 70001, 32)) [] t = T_I64 -> Leaf("i64", <<i, 0, i, 0>>)
                [] t = T_BINARY -> Leaf("string", [j \in 1..i |-> 96 + i])
                [] t = T_DOUBLE -> Leaf("double", <<64, i, 0, 0, 0, 0, 0, 0>>)
                [] t = T_UUID -> Leaf("uuid", Fill(16, i))
                [] t = T_BOOL -> Leaf("bool", <<i % 2>>)
                [] t = T_STRUCT -> Struct(<<Fld(i, Leaf("i8", <<i>>))>>)
                [] t = T_LIST -> List(T_I8, [j \in 1..i |-> Leaf("i8", <<j>>)])
                [] t = T_SET -> SetV(T_I8, [j \in 1..i |-> Leaf("i8", <<j>>)])
                [] t = T_MAP -> Map(T_I8, T_I8, [j \in 1..i |-> <<Leaf("i8", <<j>>), Leaf("i8", <<j>>)>>])

ElemTypes == {T_BOOL, T_I8, T_I16, T_I32, T_I64, T_DOUBLE, T_BINARY, T_UUID, T_STRUCT, T_LIST, T_SET, T_MAP}
PrimTypes == {T_BOOL, T_I8, T_I16, T_I32, T_I64, T_DOUBLE, T_BINARY, T_UUID}

(* ------------------------------ families ------------------------------ *)
\* F1: every boundary leaf as a top-level value
F1 == AllLeaves
\* F2: a struct with one field: every id class x every representative leaf; every leaf at id 1
F2 == {Struct(<<Fld(id, l)>>) : id \in IdVals, l \in RepLeaves} \cup {Struct(<<Fld(1, l)>>) : l \in AllLeaves}
\* F3: two fields: id pairs x (type pairs that couple through codec state: bool/non-bool)
F3Types == { <<T_I32, T_I32>>, <<T_BOOL, T_I32>>, <<T_I32, T_BOOL>>, <<T_BOOL, T_BOOL>>, <<T_STRUCT, T_I8>>,
             <<T_STRUCT, T_BOOL>>, <<T_LIST, T_BOOL>>, <<T_MAP, T_I16>> }
F3 == {Struct(<<Fld(p[1], RepAny(tt[1])), Fld(p[2], Rep2(tt[2]))>>) : p \in IdPairs, tt \in F3Types}
\* F4: containers: every element type x sizes around the short/long header boundary
CollSizes == {0, 1, 2, 14, 15, 16}
F4 == {List(t, Reps(t, n)) : t \in ElemTypes, n \in CollSizes}
      \cup {SetV(t, [i \in 1..n |-> KeyN(t, i)]) : t \in ElemTypes \ {T_BOOL}, n \in {0, 1, 3}}
      \cup {SetV(T_BOOL, [i \in 1..n |-> KeyN(T_BOOL, i)]) : n \in {0, 1, 2}}
      \cup {Map(kt, vt, [i \in 1..n |-> <<KeyN(kt, i), IF i % 2 = 1 THEN RepAny(vt) ELSE Rep2(vt)>>])
              : kt \in ElemTypes \ {T_BOOL}, vt \in ElemTypes, n \in {0, 1, 2}}
      \cup {Map(T_BOOL, vt, [i \in 1..n |-> <<KeyN(T_BOOL, i), RepAny(vt)>>]) : vt \in PrimTypes, n \in {1, 2}}
      \cup {Map(T_I32, T_I32, [i \in 1..n |-> <<KeyN(T_I32, i), KeyN(T_I32, i + 1)>>]) : n \in {15, 16, 128}}
      \cup {List(T_I8, [i \in 1..n |-> Leaf("i8", <<i % 256>>)]) : n \in {127, 128, 300}}
      \* sets and maps around the same header boundaries (the set header has its own length function)
      \cup {SetV(t, [i \in 1..n |-> KeyN(t, i)]) : t \in {T_I32, T_BINARY, T_I16}, n \in {14, 15, 16}}
      \cup {SetV(T_I32, [i \in 1..n |-> KeyN(T_I32, i)]) : n \in {127, 128}}
      \cup {Map(T_I16, T_BINARY, [i \in 1..n |-> <<KeyN(T_I16, i), RepAny(T_BINARY)>>]) : n \in {14, 127}}
\* F5: nested structs with siblings before and after: the field-id context must be saved and restored
Inner(d) == IF d = 0 THEN Struct(<<Fld(3, Leaf("i16", FromInt(5, 16)))>>)
            ELSE IF d = 1 THEN Struct(<<Fld(1, Leaf("bool", <<1>>)), Fld(9, Struct(<<Fld(3, Leaf("i16", FromInt(5, 16)))>>)), Fld(10, Leaf("bool", <<0>>))>>)
            ELSE Struct(<<Fld(2, Struct(<<Fld(1, Leaf("bool", <<1>>)), Fld(9, Struct(<<Fld(300, Leaf("i8", <<1>>))>>)), Fld(10, Leaf("i8", <<2>>))>>)),
                          Fld(4, Leaf("i64", P2(34)))>>)
F5 == {Struct(<<Fld(a, RepAny(t1)), Fld(a + 1, Inner(d)), Fld(a + 2, RepAny(t2))>>)
          : a \in {1, 14, 300}, d \in {0, 1, 2}, t1 \in {T_I32, T_BOOL}, t2 \in {T_I32, T_BOOL, T_STRUCT}}
      \cup {Struct(<<Fld(1, List(T_STRUCT, <<Inner(1), EmptyStruct, Inner(0)>>)), Fld(2, Leaf("i32", FromInt(1, 32)))>>),
            Struct(<<Fld(5, Map(T_BINARY, T_STRUCT, << <<Leaf("string", StrOfLen(1)), Inner(1)>>, <<Leaf("string", StrOfLen(2)), Inner(2)>> >>)),
                     Fld(6, Leaf("bool", <<1>>)), Fld(7, EmptyStruct), Fld(8, Leaf("bool", <<0>>))>>),
            Struct(<<Fld(1, EmptyStruct), Fld(2, EmptyStruct), Fld(17, EmptyStruct), Fld(18, Leaf("i8", <<0>>))>>),
            List(T_LIST, <<List(T_LIST, <<List(T_I32, <<Leaf("i32", FromInt(1, 32))>>), List(T_I32, <<>>)>>), List(T_LIST, <<>>)>>),
            Map(T_BINARY, T_LIST, << <<Leaf("string", StrOfLen(1)), List(T_MAP, <<Map(T_I32, T_BINARY, << <<Leaf("i32", FromInt(1, 32)), Leaf("string", StrOfLen(2))>> >>)>>)>> >>),
            List(T_SET, <<SetV(T_BINARY, <<Leaf("string", StrOfLen(1))>>), SetV(T_BINARY, <<>>)>>)}
\* F6: a struct holding one field of every wire type (two orders), with every leaf kind
AllKinds == <<Leaf("bool", <<1>>), Leaf("i8", <<128>>), Leaf("i16", FromInt(-32768, 16)), Leaf("i32", FromInt(I32Min, 32)),
              Leaf("i64", Compl(Low1(63))), Leaf("double", <<127,240,0,0,0,0,0,42>>), Leaf("string", StrOfLen(9)),
              Leaf("binary", BinOfLen(128)), Leaf("uuid", [i \in 1..16 |-> i - 1]), RepStruct, RepList, RepSet, RepMap,
              Leaf("bool", <<0>>)>>
F6 == {Struct([i \in 1..Len(AllKinds) |-> Fld(i, AllKinds[i])]),
       Struct([i \in 1..Len(AllKinds) |-> Fld(20 * i, AllKinds[Len(AllKinds) + 1 - i])]),
       Struct([i \in 1..Len(AllKinds) |-> Fld(100 - 3 * i, AllKinds[i])])}

\* deep nesting: struct{1: struct{1: ... i8}} to depth d, and list<list<...>> to depth d
RECURSIVE DeepStruct(_)
DeepStruct(d) == IF d = 0 THEN Leaf("i8", <<1>>) ELSE Struct(<<Fld(1, DeepStruct(d - 1))>>)
RECURSIVE DeepList(_)
DeepList(d) == IF d = 0 THEN Leaf("i8", <<1>>) ELSE List(IF d = 1 THEN T_I8 ELSE T_LIST, <<DeepList(d - 1)>>)
RECURSIVE DeepMap(_)
DeepMap(d) == IF d = 0 THEN Leaf("i8", <<1>>)
              ELSE Map(T_I8, IF d = 1 THEN T_I8 ELSE T_MAP, << <<Leaf("i8", <<d % 256>>), DeepMap(d - 1)>> >>)

\* large payloads around the zero-copy threshold T (4096) and multi-byte varint lengths
BigLens == {4095, 4096, 4097, 16383, 16384}
FBig == {Leaf("binary", BinOfLen(n)) : n \in BigLens} \cup {Leaf("string", StrOfLen(n)) : n \in BigLens}
        \cup {Struct(<<Fld(1, Leaf("binary", BinOfLen(4096))), Fld(2, Leaf("i32", FromInt(7, 32))),
                       Fld(3, Leaf("string", StrOfLen(4097))), Fld(4, Leaf("binary", BinOfLen(4095))), Fld(5, Leaf("bool", <<1>>))>>),
              List(T_BINARY, <<Leaf("binary", BinOfLen(4096)), Leaf("binary", BinOfLen(1)), Leaf("binary", BinOfLen(5000))>>)}

QuickTrees == SetToSeq(F1) \o SetToSeq(F2) \o SetToSeq(F3) \o SetToSeq(F4) \o SetToSeq(F5) \o SetToSeq(F6)
                \o <<DeepStruct(5), DeepList(5), DeepMap(4)>>
=============================================================================
