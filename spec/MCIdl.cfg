
