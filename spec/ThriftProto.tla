----------------------------- MODULE ThriftProto -----------------------------
(***************************************************************************)
(* Lock-step model of pilota's compact protocol objects: the writer, the   *)
(* length pass and the reader run side by side over every well-formed call *)
(* sequence.  The state holds only the three private protocol states and   *)
(* the well-formedness context (which value is expected next), no history, *)
(* so the reachable graph is finite and has cycles through the initial     *)
(* state: one exhaustive run covers call sequences of every length -- the  *)
(* "every sequence of values written back to back on one buffer and read   *)
(* with one protocol instance" quantifier of C01, and C04's "the compact   *)
(* length calculation mirrors the writer's field-id delta stack".          *)
(*                                                                         *)
(* A step is the smallest group of calls whose bytes align between writer  *)
(* and reader (write_field_begin(Bool) emits nothing, write_bool emits the *)
(* header; read_field_begin consumes it, read_bool consumes nothing).      *)
(* The transition relation is data: Steps(s) is the set of enabled step    *)
(* records, each carrying the calls, the bytes the writer appends, and the *)
(* post-state.  Every step asserts its own round trip against the IDEAL    *)
(* codec (ThriftCompact): the reader returns what was written and consumes *)
(* exactly the bytes, the length pass returns their number.                *)
(***************************************************************************)
EXTENDS CompactProto, ThriftCompact, FiniteSets

CONSTANTS Ids,        \* field ids to explore
          MaxDepth,   \* max number of open structs/containers
          MaxElems    \* max declared element count of a container

VARIABLE st
vars == <<st>>

\* frames: a struct being written, or a container with `rem` slots left (maps: 2 per entry)
SFrame(isf) == [k |-> "s", t1 |-> 0, t2 |-> 0, rem |-> 0, isf |-> isf]
CFrame(t1, t2, rem, isf) == [k |-> "c", t1 |-> t1, t2 |-> t2, rem |-> rem, isf |-> isf]

Init0 == [w |-> W0, l |-> W0, r |-> R0, fr |-> <<>>]
Init == st = Init0

\* leaf values explored per wire type (boundary classes; exactness is checked by Assert)
LeafVals(t) ==
  CASE t = T_BOOL -> {[k |-> "bool", v |-> <<0>>], [k |-> "bool", v |-> <<1>>]}
    [] t = T_I8 -> {[k |-> "i8", v |-> <<128>>]}
    [] t = T_I16 -> {[k |-> "i16", v |-> FromInt(-8193, 16)], [k |-> "i16", v |-> FromInt(63, 16)]}
    [] t = T_I32 -> {[k |-> "i32", v |-> FromInt(-2147483647 - 1, 32)]}
    [] t = T_I64 -> {[k |-> "i64", v |-> <<1800, 1286, 772, 258>>], [k |-> "i64", v |-> <<0, 0, 0, 32768>>]}
    [] t = T_DOUBLE -> {[k |-> "double", v |-> <<63, 248, 0, 0, 0, 0, 0, 1>>]}
    [] t = T_BINARY -> {[k |-> "binary", v |-> <<>>], [k |-> "binary", v |-> <<104, 105, 0>>]}
    [] t = T_UUID -> {[k |-> "uuid", v |-> [i \in 1..16 |-> i]]}
LeafTypes == {T_BOOL, T_I8, T_I16, T_I32, T_I64, T_DOUBLE, T_BINARY, T_UUID}
ContTypes == {T_LIST, T_SET, T_MAP}

\* one primitive call, homogeneous record so that steps can live in one set
Call(op, t, id, n, t2, v) == [op |-> op, t |-> t, id |-> id, n |-> n, t2 |-> t2, v |-> v]
C0(op) == Call(op, 0, 0, 0, 0, <<>>)

\* --- primitives on the three states -----------------------------------------------------------
WLeaf(w, x) == CASE x.k = "bool" -> WBool(w, x.v[1]) [] x.k = "i8" -> WI8(w, x.v[1])
                 [] x.k \in {"i16", "i32", "i64"} -> WInt(w, x.v) [] x.k = "double" -> WDouble(w, x.v)
                 [] x.k = "uuid" -> WUuid(w, x.v) [] x.k \in {"binary", "string"} -> WBinary(w, x.v)
LLeaf(w, x) == CASE x.k = "bool" -> LBool(w, x.v[1]) [] x.k = "i8" -> LI8(w, x.v[1])
                 [] x.k \in {"i16", "i32", "i64"} -> LInt(w, x.v) [] x.k = "double" -> LDouble(w, x.v)
                 [] x.k = "uuid" -> LUuid(w, x.v) [] x.k \in {"binary", "string"} -> LBinaryN(w, Len(x.v))
\* returns [ok, r, n, val (leaf tree)]
RLeaf(r, t, b) ==
  CASE t = T_BOOL -> LET q == RBool(r, b) IN [ok |-> q.ok, r |-> q.r, n |-> q.n, val |-> [k |-> "bool", v |-> <<q.b>>]]
    [] t = T_I8 -> LET q == RI8(r, b) IN [ok |-> q.ok, r |-> q.r, n |-> q.n, val |-> [k |-> "i8", v |-> q.v]]
    [] t = T_I16 -> LET q == RInt(r, b, 16) IN [ok |-> q.ok, r |-> q.r, n |-> q.n, val |-> [k |-> "i16", v |-> q.v]]
    [] t = T_I32 -> LET q == RInt(r, b, 32) IN [ok |-> q.ok, r |-> q.r, n |-> q.n, val |-> [k |-> "i32", v |-> q.v]]
    [] t = T_I64 -> LET q == RInt(r, b, 64) IN [ok |-> q.ok, r |-> q.r, n |-> q.n, val |-> [k |-> "i64", v |-> q.v]]
    [] t = T_DOUBLE -> LET q == RDouble(r, b) IN [ok |-> q.ok, r |-> q.r, n |-> q.n, val |-> [k |-> "double", v |-> q.v]]
    [] t = T_UUID -> LET q == RUuid(r, b) IN [ok |-> q.ok, r |-> q.r, n |-> q.n, val |-> [k |-> "uuid", v |-> q.v]]
    [] t = T_BINARY -> LET q == RBinary(r, b) IN [ok |-> q.ok, r |-> q.r, n |-> q.n, val |-> [k |-> "binary", v |-> q.v]]

Drop(b, n) == SubSeq(b, n + 1, Len(b))
LeafCall(x) == Call("leaf", TTypeOf(x), 0, 0, 0, x.v)

\* what the frame on top of the stack expects next: 0 = anything (top level), -1 = a field or stop,
\* -2 = container exhausted, else the wire type of the next element
Expect(fr) ==
  IF fr = <<>> THEN 0
  ELSE LET f == Top(fr) IN
       IF f.k = "s" THEN -1
       ELSE IF f.rem = 0 THEN -2
       ELSE IF f.rem % 2 = 0 THEN f.t1 ELSE f.t2
\* after a value has been completed in the current frame
Consumed(fr) ==
  IF fr = <<>> THEN fr
  ELSE LET f == Top(fr) IN IF f.k = "c" THEN [fr EXCEPT ![Len(fr)].rem = f.rem - 1] ELSE fr
InStruct(fr) == fr # <<>> /\ Top(fr).k = "s"

Step(op, calls, bytes, post) == [op |-> op, calls |-> calls, bytes |-> bytes, post |-> post]

\* -------------------------------------------------------------------------------------------------
\* (1) a leaf value as struct field `id`:  field_begin, leaf, field_end
FieldLeafSteps(s) ==
  IF ~InStruct(s.fr) THEN {}
  ELSE UNION {{
    LET w1 == WFieldBegin(s.w, t, id)   w2 == WLeaf(w1.w, x)   w3 == WFieldEnd(w2.w)
        l1 == LFieldBegin(s.l, t, id)   l2 == LLeaf(l1.w, x)   l3 == LFieldEnd(l2.w)
        b  == w1.out \o w2.out \o w3.out
        r1 == RFieldBegin(s.r, b)       r2 == RLeaf(r1.r, t, Drop(b, r1.n))   r3 == RFieldEnd(r2.r)
        ideal == CEncFields(<<[id |-> id, x |-> x]>>, 1, s.w.last, "p15")
    IN IF Assert(/\ w1.ok /\ w2.ok /\ w3.ok /\ l1.ok /\ l2.ok /\ l3.ok /\ r1.ok /\ r2.ok /\ r3.ok
                 /\ r1.t = t /\ r1.id = id /\ r2.val = x /\ r1.n + r2.n = Len(b)
                 /\ l1.n + l2.n + l3.n = Len(b)
                 /\ b \o <<CT_STOP>> = ideal,
                 <<"field-leaf round trip", s, id, x, b>>)
       THEN Step("field_leaf", <<Call("field_begin", t, id, 0, 0, <<>>), LeafCall(x), C0("field_end")>>, b,
                 [w |-> w3.w, l |-> l3.w, r |-> r3.r, fr |-> s.fr])
       ELSE Step("bad", <<>>, <<>>, s)
    : x \in LeafVals(t) } : t \in LeafTypes, id \in Ids }

\* (2) a leaf value as container element / top-level value
ElemLeafSteps(s) ==
  LET e == Expect(s.fr) IN
  IF e \notin LeafTypes \cup {0} \/ (e = 0 /\ Len(s.fr) > 0) THEN {}
  ELSE UNION {{
    LET w1 == WLeaf(s.w, x)  l1 == LLeaf(s.l, x)  b == w1.out  r1 == RLeaf(s.r, TTypeOf(x), b)
    IN IF Assert(w1.ok /\ l1.ok /\ r1.ok /\ r1.val = x /\ r1.n = Len(b) /\ l1.n = Len(b) /\ b = CEncF(x, "p15"),
                 <<"elem-leaf round trip", s, x, b>>)
       THEN Step("elem_leaf", <<LeafCall(x)>>, b, [w |-> w1.w, l |-> l1.w, r |-> r1.r, fr |-> Consumed(s.fr)])
       ELSE Step("bad", <<>>, <<>>, s)
    : x \in LeafVals(t) } : t \in (IF e = 0 THEN LeafTypes ELSE {e}) }

\* (3) open a struct: as a field (field_begin + struct_begin), as an element, or at top level
StructOpenSteps(s) ==
  IF Len(s.fr) >= MaxDepth THEN {}
  ELSE IF InStruct(s.fr)
  THEN { LET w1 == WFieldBegin(s.w, T_STRUCT, id)  w2 == WStructBegin(w1.w)
             l1 == LFieldBegin(s.l, T_STRUCT, id)  l2 == LStructBegin(l1.w)
             b == w1.out \o w2.out
             r1 == RFieldBegin(s.r, b)  r2 == RStructBegin(r1.r)
         IN IF Assert(w1.ok /\ w2.ok /\ l1.ok /\ l2.ok /\ r1.ok /\ r2.ok /\ r1.t = T_STRUCT /\ r1.id = id
                      /\ r1.n = Len(b) /\ l1.n + l2.n = Len(b), <<"field-struct open", s, id, b>>)
            THEN Step("field_struct", <<Call("field_begin", T_STRUCT, id, 0, 0, <<>>), C0("struct_begin")>>, b,
                      [w |-> w2.w, l |-> l2.w, r |-> r2.r, fr |-> Append(s.fr, SFrame(TRUE))])
            ELSE Step("bad", <<>>, <<>>, s) : id \in Ids }
  ELSE IF Expect(s.fr) \in {0, T_STRUCT}
  THEN { LET w1 == WStructBegin(s.w)  l1 == LStructBegin(s.l)  r1 == RStructBegin(s.r)
         IN IF Assert(w1.ok /\ l1.ok /\ r1.ok /\ w1.out = <<>> /\ l1.n = 0, <<"struct open", s>>)
            THEN Step("struct", <<C0("struct_begin")>>, <<>>,
                      [w |-> w1.w, l |-> l1.w, r |-> r1.r, fr |-> Append(s.fr, SFrame(FALSE))])
            ELSE Step("bad", <<>>, <<>>, s) }
  ELSE {}

\* (4) close a struct: field_stop, struct_end (+ field_end when the struct was a field value)
StructCloseSteps(s) ==
  IF ~InStruct(s.fr) THEN {}
  ELSE { LET isf == Top(s.fr).isf
             w1 == WFieldStop(s.w)  w2 == WStructEnd(w1.w)  w3 == IF isf THEN WFieldEnd(w2.w) ELSE w2
             l1 == LFieldStop(s.l)  l2 == LStructEnd(l1.w)  l3 == IF isf THEN LFieldEnd(l2.w) ELSE l2
             b == w1.out \o w2.out
             r1 == RFieldBegin(s.r, b)  r2 == RStructEnd(r1.r)  r3 == IF isf THEN RFieldEnd(r2.r) ELSE r2
         IN IF Assert(w1.ok /\ w2.ok /\ w3.ok /\ l1.ok /\ l2.ok /\ l3.ok /\ r1.ok /\ r2.ok /\ r3.ok
                      /\ r1.t = T_STOP /\ r1.n = 1 /\ b = <<0>> /\ l1.n + l2.n = 1, <<"struct close", s, b>>)
            THEN Step("struct_close",
                      <<C0("field_stop"), C0("struct_end")>> \o (IF isf THEN <<C0("field_end")>> ELSE <<>>), b,
                      [w |-> w3.w, l |-> l3.w, r |-> r3.r, fr |-> Consumed(Pop(s.fr))])
            ELSE Step("bad", <<>>, <<>>, s) }

\* (5) open a container (list/set/map) as field, element or top-level value
ContOpenSteps(s) ==
  IF Len(s.fr) >= MaxDepth THEN {}
  ELSE LET e == Expect(s.fr)
           kinds == IF e = -1 \/ e = 0 THEN ContTypes ELSE IF e \in ContTypes THEN {e} ELSE {}
           ids == IF e = -1 THEN Ids ELSE {0}
       IN UNION { UNION {{
            LET isf == (e = -1)
                w0 == IF isf THEN WFieldBegin(s.w, ct, id) ELSE WRes(s.w, <<>>)
                l0 == IF isf THEN LFieldBegin(s.l, ct, id) ELSE [ok |-> TRUE, w |-> s.l, n |-> 0]
                w1 == IF ct = T_MAP THEN WMapBegin(w0.w, sh[1], sh[2], n) ELSE WCollBegin(w0.w, sh[1], n)
                l1 == IF ct = T_MAP THEN LMapBegin(l0.w, sh[1], sh[2], n) ELSE LCollBegin(l0.w, sh[1], n)
                b  == w0.out \o w1.out
                r0 == IF isf THEN RFieldBegin(s.r, b) ELSE [ok |-> TRUE, r |-> s.r, n |-> 0, t |-> ct, id |-> id]
                bb == Drop(b, r0.n)
                r1 == IF ct = T_MAP THEN RMapBegin(r0.r, bb) ELSE RCollBegin(r0.r, bb)
                hdrOk == IF ct = T_MAP
                         THEN r1.cnt = n /\ (n = 0 \/ (r1.kt = sh[1] /\ r1.vt = sh[2]))
                         ELSE r1.cnt = n /\ r1.t = sh[1]
                op == IF ct = T_MAP THEN "map_begin" ELSE IF ct = T_LIST THEN "list_begin" ELSE "set_begin"
            IN IF Assert(w0.ok /\ w1.ok /\ l0.ok /\ l1.ok /\ r0.ok /\ r1.ok /\ r0.t = ct /\ r0.id = id /\ hdrOk
                         /\ r0.n + r1.n = Len(b) /\ l0.n + l1.n = Len(b), <<"container open", s, ct, sh, n, b>>)
               THEN Step("cont_open",
                         (IF isf THEN <<Call("field_begin", ct, id, 0, 0, <<>>)>> ELSE <<>>) \o <<Call(op, sh[1], 0, n, sh[2], <<>>)>>, b,
                         [w |-> w1.w, l |-> l1.w, r |-> r1.r,
                          fr |-> Append(s.fr, CFrame(sh[1], sh[2], IF ct = T_MAP THEN 2 * n ELSE n, isf))])
               ELSE Step("bad", <<>>, <<>>, s)
            : n \in 0..MaxElems, id \in ids }
            : sh \in (IF ct = T_MAP THEN {<<T_I8, T_BOOL>>, <<T_BINARY, T_STRUCT>>, <<T_BOOL, T_LIST>>}
                      ELSE {<<T_BOOL, T_BOOL>>, <<T_STRUCT, T_STRUCT>>, <<T_I16, T_I16>>, <<T_MAP, T_MAP>>}) }
            : ct \in kinds }

\* (6) close an exhausted container (+ field_end when it was a field value)
ContCloseSteps(s) ==
  IF Expect(s.fr) # -2 THEN {}
  ELSE { LET f == Top(s.fr)
             w1 == IF f.isf THEN WFieldEnd(s.w) ELSE WRes(s.w, <<>>)
             l1 == IF f.isf THEN LFieldEnd(s.l) ELSE [ok |-> TRUE, w |-> s.l, n |-> 0]
         IN IF Assert(w1.ok /\ l1.ok /\ w1.out = <<>> /\ l1.n = 0, <<"container close", s>>)
            THEN Step("cont_close", <<C0("coll_end")>> \o (IF f.isf THEN <<C0("field_end")>> ELSE <<>>), <<>>,
                      [w |-> w1.w, l |-> l1.w, r |-> s.r, fr |-> Consumed(Pop(s.fr))])
            ELSE Step("bad", <<>>, <<>>, s) }

Steps(s) == FieldLeafSteps(s) \cup ElemLeafSteps(s) \cup StructOpenSteps(s) \cup StructCloseSteps(s)
              \cup ContOpenSteps(s) \cup ContCloseSteps(s)

Next == \E t \in Steps(st) : st' = t.post
Spec == Init /\ [][Next]_vars

\* ------------------------------------------------------------------------------------ properties
\* reader and length pass track the writer's field-id context after every aligned step
Sync == /\ st.r.last = st.w.last /\ st.r.stack = st.w.stack
        /\ st.l = st.w
\* deferred bool headers never survive a step: the panicking asserts of compact.rs are unreachable
PendingDiscipline == st.w.pend = <<>> /\ st.r.pv = <<>> /\ st.r.pid = <<>>
\* back at top level every object is indistinguishable from a new one
Fresh == st.fr = <<>> => st.w = W0 /\ st.l = W0 /\ st.r = R0
\* the field-id stack mirrors the open structs
StackShape == Len(st.w.stack) = Cardinality({i \in 1..Len(st.fr) : st.fr[i].k = "s"})
NoBad == \A t \in Steps(st) : t.op # "bad"
=============================================================================
