----------------------------- MODULE AsyncReads -----------------------------
(***************************************************************************)
(* As-built model of how pilota's ASYNCHRONOUS protocols pull bytes from   *)
(* the stream (binary.rs / binary_le.rs TAsyncBinaryProtocol, compact.rs   *)
(* TAsyncCompactProtocol): every value is obtained through a sequence of   *)
(* fixed-size read requests (read_u8, read_i16, read_i32, read_i64/f64,    *)
(* read_exact(len)); varints are read one byte at a time.  Reads(v, P) is  *)
(* that sequence of request sizes for a well-formed encoding of tree v.    *)
(* A request of size 0 (empty string) never polls the stream.              *)
(* The sum of the sequence is the length of the ideal encoding -- which is *)
(* exactly "the asynchronous decoder never reads past the end of the       *)
(* message" (checked as a theorem by MCAsync on every vector).             *)
(***************************************************************************)
EXTENDS ThriftTypes

Ones(n) == [i \in 1..n |-> 1]
NoZero(s) == SelectSeq(s, LAMBDA x : x > 0)

RECURSIVE BinReads(_)
BinReads(v) ==
  CASE v.k \in {"bool", "i8"} -> <<1>>
    [] v.k = "i16" -> <<2>>  [] v.k = "i32" -> <<4>>  [] v.k \in {"i64", "double"} -> <<8>>  [] v.k = "uuid" -> <<16>>
    [] v.k \in {"binary", "string"} -> NoZero(<<4, Len(v.v)>>)
    [] v.k = "struct" -> Flat([i \in 1..Len(v.fs) |-> <<1, 2>> \o BinReads(v.fs[i].x)]) \o <<1>>
    [] v.k \in {"list", "set"} -> <<1, 4>> \o Flat([i \in 1..Len(v.es) |-> BinReads(v.es[i])])
    [] v.k = "map" -> <<1, 1, 4>> \o Flat([i \in 1..Len(v.kvs) |-> BinReads(v.kvs[i][1]) \o BinReads(v.kvs[i][2])])

U32N(n) == Len(UVarint(FromInt(n, 32)))
RECURSIVE CReads(_)
RECURSIVE CFieldReads(_, _, _)
CFieldReads(fs, i, last) ==
  IF i > Len(fs) THEN <<1>>
  ELSE LET f == fs[i]
           delta == f.id - last
           hdr == IF delta > 0 /\ delta <= 15 THEN <<1>> ELSE <<1>> \o Ones(Len(ZVarint(FromInt(f.id, 16))))
       IN hdr \o (IF f.x.k = "bool" THEN <<>> ELSE CReads(f.x)) \o CFieldReads(fs, i + 1, f.id)
CReads(v) ==
  CASE v.k \in {"bool", "i8"} -> <<1>>
    [] v.k \in {"i16", "i32", "i64"} -> Ones(Len(ZVarint(v.v)))
    [] v.k = "double" -> <<8>>  [] v.k = "uuid" -> <<16>>
    [] v.k \in {"binary", "string"} -> Ones(U32N(Len(v.v))) \o NoZero(<<Len(v.v)>>)
    [] v.k = "struct" -> CFieldReads(v.fs, 1, 0)
    [] v.k \in {"list", "set"} -> <<1>> \o (IF Len(v.es) > 14 THEN Ones(U32N(Len(v.es))) ELSE <<>>)
                                   \o Flat([i \in 1..Len(v.es) |-> CReads(v.es[i])])
    [] v.k = "map" -> Ones(U32N(Len(v.kvs))) \o (IF Len(v.kvs) > 0 THEN <<1>> ELSE <<>>)
                        \o Flat([i \in 1..Len(v.kvs) |-> CReads(v.kvs[i][1]) \o CReads(v.kvs[i][2])])

RECURSIVE Sum(_, _)
Sum(s, i) == IF i > Len(s) THEN 0 ELSE s[i] + Sum(s, i + 1)
=============================================================================
