------------------------------ MODULE PbSchema ------------------------------
(***************************************************************************)
(* Schema-directed semantics of protobuf messages (ideal layer): the       *)
(* independent codec of C05 / C06 and the merge semantics of C18.          *)
(*                                                                         *)
(* A schema D (JSON, lib/pbschemas.py): D.messages = <<[name, syntax,      *)
(*   fields]>>, each field [name, tag, label, ty, oneof, packed] with      *)
(*   label \in {"singular" (proto3 implicit presence), "optional",         *)
(*             "required", "repeated", "map"}                              *)
(*   ty    = [s |-> scalar] | [msg |-> Name] | [enum |-> Name]             *)
(*           | [map |-> <<key scalar, value ty>>]                          *)
(*   oneof = "" or the name of the oneof group.                            *)
(* A message VALUE is the normal form a decoder arrives at:                *)
(*   [k |-> "msg", fs |-> <<[tag, x]>>] in declaration order where x is    *)
(*   a scalar leaf [k |-> scalar, v |-> payload], a message value,         *)
(*   [k |-> "rep", es |-> <<..>>] or [k |-> "pmap", kvs |-> << <<k,v>> >>];*)
(*   absent = not listed.  Implicit-presence fields holding their default  *)
(*   are not listed (they are indistinguishable from absent).              *)
(*                                                                         *)
(*   Enc(D, M, x, opts)   an encoding (opts chooses among the conforming   *)
(*                        alternatives: field order, packing, explicit     *)
(*                        defaults, map entry layout, split messages)      *)
(*   Dec(D, M, bytes)     the value a conforming decoder produces: last    *)
(*                        wins / append / map insert-replace / oneof       *)
(*                        replace / embedded messages merge; unknown       *)
(*                        fields ignored.  Dec(a \o b) is by construction  *)
(*                        "decode a, then merge b" (C18).                  *)
(***************************************************************************)
EXTENDS PbWire, Sequences, FiniteSets, SequencesExt

Has(r, f) == f \in DOMAIN r
MsgIdx(D, name) == CHOOSE i \in 1..Len(D.messages) : D.messages[i].name = name
Msg(D, name) == D.messages[MsgIdx(D, name)]

Varint32 == {"int32", "uint32", "sint32", "enum"}
Varint64 == {"int64", "uint64", "sint64"}
Fixed32 == {"fixed32", "sfixed32", "float"}
Fixed64 == {"fixed64", "sfixed64", "double"}
LenScalars == {"string", "bytes"}

SK(ty) == IF Has(ty, "s") THEN ty.s ELSE IF Has(ty, "enum") THEN "enum" ELSE IF Has(ty, "msg") THEN "msg" ELSE "map"
IsNumeric(k) == k \in Varint32 \cup Varint64 \cup Fixed32 \cup Fixed64 \cup {"bool"}
WireOf(k) == IF k \in Varint32 \cup Varint64 \cup {"bool"} THEN WT_VARINT
             ELSE IF k \in Fixed32 THEN WT_I32 ELSE IF k \in Fixed64 THEN WT_I64 ELSE WT_LEN

Leaf(k, v) == [k |-> k, v |-> v]
DefaultLeaf(k) ==
  CASE k \in Varint32 \cup Fixed32 -> Leaf(k, IF k = "float" THEN <<0, 0, 0, 0>> ELSE ZeroInt(32))
    [] k \in Varint64 -> Leaf(k, ZeroInt(64))
    [] k \in Fixed64 -> Leaf(k, IF k = "double" THEN <<0, 0, 0, 0, 0, 0, 0, 0>> ELSE ZeroInt(64))
    [] k = "bool" -> Leaf(k, <<0>>)
    [] k \in LenScalars -> Leaf(k, <<>>)

\* payload bytes of a scalar leaf (without key)
ScalarBytes(x) ==
  CASE x.k \in {"int32", "enum"} -> EncInt32(x.v) [] x.k = "uint32" -> EncUInt32(x.v) [] x.k = "sint32" -> EncSInt32(x.v)
    [] x.k \in {"int64", "uint64"} -> EncInt64(x.v) [] x.k = "sint64" -> EncSInt64(x.v)
    [] x.k = "bool" -> x.v
    [] x.k \in {"fixed32", "sfixed32", "fixed64", "sfixed64"} -> LE(x.v)
    [] x.k = "float" -> [i \in 1..4 |-> x.v[5 - i]]        \* v holds the IEEE bytes most significant first
    [] x.k = "double" -> [i \in 1..8 |-> x.v[9 - i]]
    [] x.k \in LenScalars -> LenPrefix(Len(x.v)) \o x.v

Concat2(ss) == IF Len(ss) = 0 THEN <<>> ELSE FoldLeft(LAMBDA a, b : a \o b, <<>>, ss)

(* ------------------------------------------------------------------ encoding *)
\* opts: [rev (reverse field order), pack ("decl" | "all" | "none"), dflt (emit implicit defaults explicitly),
\*        mapswap (value before key in map entries), split (embedded message sent as two records)]
\* unk: bytes of an unknown field a sender may place INSIDE every map entry (behind the key and behind the value)
O0 == [rev |-> FALSE, pack |-> "decl", dflt |-> FALSE, mapswap |-> FALSE, split |-> FALSE, unk |-> <<>>]

RECURSIVE EncMsg(_, _, _, _)
RECURSIVE EncField(_, _, _, _)
EncVal(D, ty, x, o) == IF x.k = "msg" THEN LET b == EncMsg(D, ty.msg, x, o) IN LenPrefix(Len(b)) \o b ELSE ScalarBytes(x)
\* a GROUP field (proto2) is a message-typed field [msg |-> Name, grp |-> TRUE] delimited by start / end group keys
IsGrp(ty) == Has(ty, "grp")
WtOfTy(ty) == IF IsGrp(ty) THEN WT_SGROUP ELSE IF SK(ty) \in {"msg", "map"} THEN WT_LEN ELSE WireOf(SK(ty))
\* key + payload of one occurrence of field f holding x
EncKV(D, f, x, o) ==
  IF IsGrp(f.ty) THEN KeyBytes(f.tag, WT_SGROUP) \o EncMsg(D, f.ty.msg, x, o) \o KeyBytes(f.tag, WT_EGROUP)
  ELSE KeyBytes(f.tag, WtOfTy(f.ty)) \o EncVal(D, f.ty, x, o)
\* body of a group record as the record parser returns it (everything up to and including the end-group key)
GrpBody(f, r) == SubSeq(r.bytes, 1, Len(r.bytes) - Len(KeyBytes(f.tag, WT_EGROUP)))
MsgWt(f) == IF IsGrp(f.ty) THEN WT_SGROUP ELSE WT_LEN
MsgBody(f, r) == IF IsGrp(f.ty) THEN GrpBody(f, r) ELSE r.bytes

EncField(D, f, x, o) ==
  IF x.k = "rep" THEN
      LET packed == IsNumeric(SK(f.ty)) /\ (o.pack = "all" \/ (o.pack = "decl" /\ f.packed))
      IN IF packed /\ Len(x.es) > 0
         THEN LET body == Concat2([i \in 1..Len(x.es) |-> ScalarBytes(x.es[i])]) IN
              KeyBytes(f.tag, WT_LEN) \o LenPrefix(Len(body)) \o body
         ELSE Concat2([i \in 1..Len(x.es) |-> EncKV(D, f, x.es[i], o)])
  ELSE IF x.k = "pmap" THEN
      LET kty == [s |-> f.ty.map[1]]
          vty == f.ty.map[2]
          ent(kv) == LET kb == KeyBytes(1, WtOfTy(kty)) \o EncVal(D, kty, kv[1], o)
                         vb == KeyBytes(2, WtOfTy(vty)) \o EncVal(D, vty, kv[2], o)
                         body == IF o.mapswap THEN vb \o o.unk \o kb \o o.unk ELSE kb \o o.unk \o vb \o o.unk
                     IN KeyBytes(f.tag, WT_LEN) \o LenPrefix(Len(body)) \o body
      IN Concat2([i \in 1..Len(x.kvs) |-> ent(x.kvs[i])])
  ELSE IF x.k = "msg" /\ o.split /\ Len(x.fs) >= 2 THEN
      \* an embedded message may arrive in pieces: a conforming decoder merges them
      LET a == [k |-> "msg", fs |-> SubSeq(x.fs, 1, 1)]
          b == [k |-> "msg", fs |-> SubSeq(x.fs, 2, Len(x.fs))]
          \* the pieces must not carry explicit defaults for each other's fields (a later default would win)
          op == [o EXCEPT !.dflt = FALSE]
      IN EncKV(D, f, a, op) \o EncKV(D, f, b, op)
  ELSE EncKV(D, f, x, o)

FieldOf(m, tag) == m.fields[CHOOSE i \in 1..Len(m.fields) : m.fields[i].tag = tag]
ImplicitAbsent(m, x) ==
  \* implicit-presence scalars of the message that the value does not list: may be sent explicitly as defaults
  SelectSeq(m.fields, LAMBDA f : f.label = "singular" /\ SK(f.ty) # "msg" /\ f.oneof = ""
                                  /\ ~\E i \in 1..Len(x.fs) : x.fs[i].tag = f.tag)
EncMsg(D, name, x, o) ==
  LET m == Msg(D, name)
      parts == [i \in 1..Len(x.fs) |-> EncField(D, FieldOf(m, x.fs[i].tag), x.fs[i].x, o)]
      dfl == IF o.dflt THEN LET ia == ImplicitAbsent(m, x) IN
                            [i \in 1..Len(ia) |-> KeyBytes(ia[i].tag, WtOfTy(ia[i].ty)) \o ScalarBytes(DefaultLeaf(SK(ia[i].ty)))]
             ELSE <<>>
      all == parts \o dfl
  IN Concat2(IF o.rev THEN [i \in 1..Len(all) |-> all[Len(all) + 1 - i]] ELSE all)
Enc(D, name, x) == EncMsg(D, name, x, O0)

(* ------------------------------------------------------------------ decoding *)
\* scalar from a record; [ok, x]
ScalarOfRec(k, r) ==
  IF r.wt # WireOf(k) THEN [ok |-> FALSE, x |-> Leaf(k, <<>>)]
  ELSE [ok |-> TRUE, x |->
    CASE k \in {"int32", "uint32", "enum"} -> Leaf(k, Truncate(r.u, 32))
      [] k = "sint32" -> Leaf(k, UnZigZag(Truncate(r.u, 32)))
      [] k \in {"int64", "uint64"} -> Leaf(k, r.u)
      [] k = "sint64" -> Leaf(k, UnZigZag(r.u))
      [] k = "bool" -> Leaf(k, <<IF r.u = ZeroInt(64) THEN 0 ELSE 1>>)
      [] k \in {"fixed32", "sfixed32"} -> Leaf(k, FromLE(r.bytes, 0, 2))
      [] k \in {"fixed64", "sfixed64"} -> Leaf(k, FromLE(r.bytes, 0, 4))
      [] k = "float" -> Leaf(k, [i \in 1..4 |-> r.bytes[5 - i]])
      [] k = "double" -> Leaf(k, [i \in 1..8 |-> r.bytes[9 - i]])
      [] k \in LenScalars -> Leaf(k, r.bytes)]

\* elements of a packed record
PackedOf(k, r) ==
  IF WireOf(k) = WT_VARINT
  THEN LET u == UnpackVarints(r.bytes, 0, <<>>) IN
       [ok |-> u.ok, es |-> [i \in 1..Len(u.vals) |-> ScalarOfRec(k, Rec(0, WT_VARINT, u.vals[i], <<>>)).x]]
  ELSE LET w == IF WireOf(k) = WT_I32 THEN 4 ELSE 8
           u == UnpackFixed(r.bytes, w)
       IN [ok |-> u.ok, es |-> [i \in 1..Len(u.vals) |-> ScalarOfRec(k, Rec(0, WireOf(k), ZeroInt(64), u.vals[i])).x]]

\* message state during decoding: function tag -> x (only for present fields), kept as a sequence of [tag, x]
Lookup(fs, tag) == LET idx == {i \in 1..Len(fs) : fs[i].tag = tag} IN IF idx = {} THEN 0 ELSE CHOOSE i \in idx : TRUE
Put(fs, tag, x) == LET i == Lookup(fs, tag) IN IF i = 0 THEN Append(fs, [tag |-> tag, x |-> x]) ELSE [fs EXCEPT ![i].x = x]
RemoveTags(fs, tags) == SelectSeq(fs, LAMBDA e : e.tag \notin tags)

RECURSIVE MergeRecs(_, _, _, _, _)
RECURSIVE MergeBytes(_, _, _, _)
DFail == [ok |-> FALSE, fs |-> <<>>]

\* merge a parsed record sequence into the state fs of message `name`; depth = remaining nesting budget
MergeRecs(D, name, fs, recs, i) ==
  IF i > Len(recs) THEN [ok |-> TRUE, fs |-> fs]
  ELSE LET m == Msg(D, name)
           r == recs[i]
           fidx == {j \in 1..Len(m.fields) : m.fields[j].tag = r.tag}
       IN IF fidx = {} THEN MergeRecs(D, name, fs, recs, i + 1)          \* unknown field: ignored
          ELSE LET f == m.fields[CHOOSE j \in fidx : TRUE]
                   k == SK(f.ty)
                   \* members of the same oneof are mutually exclusive
                   sibl == IF f.oneof = "" THEN {} ELSE {m.fields[j].tag : j \in {q \in 1..Len(m.fields) : m.fields[q].oneof = f.oneof}} \ {f.tag}
                   fs0 == RemoveTags(fs, sibl)
                   cur == Lookup(fs0, f.tag)
               IN IF f.label = "repeated" THEN
                     LET old == IF cur = 0 THEN <<>> ELSE fs0[cur].x.es IN
                     IF k = "msg" THEN
                        (IF r.wt # MsgWt(f) THEN DFail
                         ELSE LET e == MergeBytes(D, f.ty.msg, <<>>, MsgBody(f, r)) IN
                              IF ~e.ok THEN DFail
                              ELSE MergeRecs(D, name, Put(fs0, f.tag, [k |-> "rep", es |-> Append(old, [k |-> "msg", fs |-> e.fs])]), recs, i + 1))
                     ELSE IF IsNumeric(k) /\ r.wt = WT_LEN THEN
                        LET p == PackedOf(k, r) IN
                        IF ~p.ok THEN DFail
                        ELSE IF Len(p.es) = 0 /\ cur = 0 THEN MergeRecs(D, name, fs0, recs, i + 1)
                        ELSE MergeRecs(D, name, Put(fs0, f.tag, [k |-> "rep", es |-> old \o p.es]), recs, i + 1)
                     ELSE LET s == ScalarOfRec(k, r) IN
                          IF ~s.ok THEN DFail
                          ELSE MergeRecs(D, name, Put(fs0, f.tag, [k |-> "rep", es |-> Append(old, s.x)]), recs, i + 1)
                  ELSE IF f.label = "map" THEN
                     IF r.wt # WT_LEN THEN DFail
                     ELSE LET inner == ParseRecords(r.bytes)
                              kk == f.ty.map[1]
                              vty == f.ty.map[2]
                              vk == SK(vty)
                          IN IF ~inner.ok THEN DFail
                             ELSE LET krecs == SelectSeq(inner.recs, LAMBDA q : q.tag = 1)
                                      vrecs == SelectSeq(inner.recs, LAMBDA q : q.tag = 2)
                                      key == IF Len(krecs) = 0 THEN [ok |-> TRUE, x |-> DefaultLeaf(kk)] ELSE ScalarOfRec(kk, krecs[Len(krecs)])
                                      val == IF vk = "msg"
                                             THEN LET vb == Concat2([q \in 1..Len(vrecs) |-> vrecs[q].bytes])
                                                      okw == \A q \in 1..Len(vrecs) : vrecs[q].wt = WT_LEN
                                                      e == MergeBytes(D, vty.msg, <<>>, vb)
                                                  IN [ok |-> okw /\ e.ok, x |-> [k |-> "msg", fs |-> e.fs]]
                                             ELSE IF Len(vrecs) = 0 THEN [ok |-> TRUE, x |-> DefaultLeaf(vk)] ELSE ScalarOfRec(vk, vrecs[Len(vrecs)])
                                      old == IF cur = 0 THEN <<>> ELSE fs0[cur].x.kvs
                                      kept == SelectSeq(old, LAMBDA p : p[1] # key.x)
                                  IN IF ~key.ok \/ ~val.ok THEN DFail
                                     ELSE MergeRecs(D, name, Put(fs0, f.tag, [k |-> "pmap", kvs |-> Append(kept, <<key.x, val.x>>)]), recs, i + 1)
                  ELSE IF k = "msg" THEN
                     IF r.wt # MsgWt(f) THEN DFail
                     ELSE LET old == IF cur = 0 THEN <<>> ELSE fs0[cur].x.fs
                              e == MergeBytes(D, f.ty.msg, old, MsgBody(f, r))
                          IN IF ~e.ok THEN DFail ELSE MergeRecs(D, name, Put(fs0, f.tag, [k |-> "msg", fs |-> e.fs]), recs, i + 1)
                  ELSE LET s == ScalarOfRec(k, r) IN
                       IF ~s.ok THEN DFail
                       ELSE IF f.label = "singular" /\ f.oneof = "" /\ s.x = DefaultLeaf(k)
                            THEN MergeRecs(D, name, RemoveTags(fs0, {f.tag}), recs, i + 1)     \* implicit presence: default = absent
                            ELSE MergeRecs(D, name, Put(fs0, f.tag, s.x), recs, i + 1)
MergeBytes(D, name, fs, bytes) ==
  LET p == ParseRecords(bytes) IN IF ~p.ok THEN DFail ELSE MergeRecs(D, name, fs, p.recs, 1)

\* normal form: fields in declaration order, nested messages normalised, sets of map entries
RECURSIVE Norm(_, _, _)
NormX(D, ty, x) ==
  IF x.k = "msg" THEN Norm(D, ty.msg, x.fs)
  ELSE IF x.k = "rep" THEN [k |-> "rep", es |-> [i \in 1..Len(x.es) |-> IF x.es[i].k = "msg" THEN Norm(D, ty.msg, x.es[i].fs) ELSE x.es[i]]]
  ELSE IF x.k = "pmap" THEN [k |-> "pmap", n |-> Len(x.kvs),
                              els |-> {<<x.kvs[i][1], IF x.kvs[i][2].k = "msg" THEN Norm(D, ty.map[2].msg, x.kvs[i][2].fs) ELSE x.kvs[i][2]>> : i \in 1..Len(x.kvs)}]
  ELSE x
Norm(D, name, fs) ==
  LET m == Msg(D, name)
      present == SelectSeq(m.fields, LAMBDA f : Lookup(fs, f.tag) # 0)
  IN [k |-> "msg", fs |-> [i \in 1..Len(present) |-> [tag |-> present[i].tag, x |-> NormX(D, present[i].ty, fs[Lookup(fs, present[i].tag)].x)]]]

(* ------------------------------------------------- what a conforming ENCODER writes *)
\* The decoder above is lenient the way the encoding specification asks decoders to be (a varint
\* wider than the field is truncated). An encoder has no such latitude: the number a varint carries
\* is the transformation the declared type prescribes -- uint32 as itself and sint32 as ZigZag32 (both
\* below 2^32), int32 / enum sign-extended to 64 bits, bool 0 or 1. Narrow is TRUE iff every known
\* varint field of the encoding, at any depth, carries such a number.
NarrowU(k, u) ==
  CASE k \in {"uint32", "sint32"} -> u[3] = 0 /\ u[4] = 0
    [] k \in {"int32", "enum"} -> IF u[2] >= 32768 THEN u[3] = 65535 /\ u[4] = 65535 ELSE u[3] = 0 /\ u[4] = 0
    [] k = "bool" -> u[2] = 0 /\ u[3] = 0 /\ u[4] = 0 /\ u[1] \in {0, 1}
    [] OTHER -> TRUE
NarrowRec(k, r) ==
  IF WireOf(k) # WT_VARINT THEN TRUE
  ELSE IF r.wt = WT_VARINT THEN NarrowU(k, r.u)
  ELSE IF r.wt = WT_LEN THEN LET u == UnpackVarints(r.bytes, 0, <<>>) IN u.ok => \A i \in 1..Len(u.vals) : NarrowU(k, u.vals[i])
  ELSE TRUE
RECURSIVE Narrow(_, _, _)
Narrow(D, name, bytes) ==
  LET p == ParseRecords(bytes)
      m == Msg(D, name)
      one(r) ==
        LET fidx == {j \in 1..Len(m.fields) : m.fields[j].tag = r.tag} IN
        IF fidx = {} THEN TRUE
        ELSE LET f == m.fields[CHOOSE j \in fidx : TRUE]
                 k == SK(f.ty)
             IN IF f.label = "map" THEN
                   (IF r.wt # WT_LEN THEN TRUE
                    ELSE LET inner == ParseRecords(r.bytes) IN
                         inner.ok => \A q \in 1..Len(inner.recs) :
                            LET e == inner.recs[q] IN
                            CASE e.tag = 1 -> NarrowRec(f.ty.map[1], e)
                              [] e.tag = 2 -> (IF SK(f.ty.map[2]) = "msg"
                                               THEN (e.wt = WT_LEN => Narrow(D, f.ty.map[2].msg, e.bytes))
                                               ELSE NarrowRec(SK(f.ty.map[2]), e))
                              [] OTHER -> TRUE)
                ELSE IF k = "msg" THEN (r.wt = MsgWt(f) => Narrow(D, f.ty.msg, MsgBody(f, r)))
                ELSE NarrowRec(k, r)
  IN p.ok => \A i \in 1..Len(p.recs) : one(p.recs[i])

\* Dec: [ok, v]; required fields (proto2) must be present
RECURSIVE HasRequired(_, _, _)
HasRequired(D, name, fs) ==
  LET m == Msg(D, name) IN
  \A j \in 1..Len(m.fields) : m.fields[j].label = "required" => Lookup(fs, m.fields[j].tag) # 0
Dec(D, name, bytes) ==
  LET r == MergeBytes(D, name, <<>>, bytes) IN
  IF ~r.ok THEN [ok |-> FALSE, v |-> [k |-> "err"]] ELSE [ok |-> TRUE, v |-> Norm(D, name, r.fs)]
=============================================================================
