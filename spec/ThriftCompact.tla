---------------------------- MODULE ThriftCompact ----------------------------
(***************************************************************************)
(* The Thrift *compact* protocol, written from the Apache specification    *)
(* (doc/specs/thrift-compact-protocol.md): executable encoder with the     *)
(* field-id context explicit, the legal alternative forms, and a total     *)
(* decoder.  Independent reference codec; no knowledge of pilota's code.   *)
(*                                                                         *)
(* form = "short": a field header uses the one-byte delta form whenever    *)
(*                 the specification allows it (0 < delta <= 15);          *)
(* form = "long" : every field header uses the long form (type byte then   *)
(*                 zig-zag varint id) -- legal wherever a delta would fit; *)
(* form = "p15"  : short form only for 0 < delta < 15 (what a writer that  *)
(*                 never emits delta 15 produces).                         *)
(* All three decode to the same value under CDec.                          *)
(***************************************************************************)
EXTENDS ThriftTypes

U32V(n) == UVarint(FromInt(n, 32))          \* unsigned varint of a small non-negative number

\* field header; `ct` is the compact type nibble to put on the wire
FieldHeader(ct, id, last, form) ==
  LET delta == id - last
      short == IF form = "long" THEN FALSE
               ELSE IF form = "p15" THEN delta > 0 /\ delta < 15
               ELSE delta > 0 /\ delta <= 15
  IN IF short THEN <<delta * 16 + ct>> ELSE <<ct>> \o ZVarint(FromInt(id, 16))

CollHeader(et, n) == IF n <= 14 THEN <<n * 16 + ToCompact(et)>>
                     ELSE <<240 + ToCompact(et)>> \o U32V(n)

RECURSIVE CEncF(_, _)
RECURSIVE CEncFields(_, _, _, _)
\* fields of a struct, threading the last written id
CEncFields(fs, i, last, form) ==
  IF i > Len(fs) THEN <<CT_STOP>>
  ELSE LET f == fs[i] IN
       (IF f.x.k = "bool"
        THEN FieldHeader(IF f.x.v[1] = 1 THEN CT_TRUE ELSE CT_FALSE, f.id, last, form)
        ELSE FieldHeader(ToCompact(TTypeOf(f.x)), f.id, last, form) \o CEncF(f.x, form))
       \o CEncFields(fs, i + 1, f.id, form)

\* a value outside a field-header position (struct contents, elements, keys, values)
CEncF(v, form) ==
  CASE v.k = "bool"   -> IF v.v[1] = 1 THEN <<CT_TRUE>> ELSE <<CT_FALSE>>
    [] v.k = "i8"     -> v.v
    [] v.k \in {"i16", "i32", "i64"} -> ZVarint(v.v)
    [] v.k = "double" -> [i \in 1..8 |-> v.v[9 - i]]             \* little-endian on the wire
    [] v.k = "uuid"   -> v.v
    [] v.k \in {"binary", "string"} -> U32V(Len(v.v)) \o v.v
    [] v.k = "struct" -> CEncFields(v.fs, 1, 0, form)
    [] v.k \in {"list", "set"} ->
         CollHeader(v.et, Len(v.es)) \o Flat([i \in 1..Len(v.es) |-> CEncF(v.es[i], form)])
    [] v.k = "map" ->
         IF Len(v.kvs) = 0 THEN <<0>>
         ELSE U32V(Len(v.kvs)) \o <<ToCompact(v.kt) * 16 + ToCompact(v.vt)>>
                \o Flat([i \in 1..Len(v.kvs) |-> CEncF(v.kvs[i][1], form) \o CEncF(v.kvs[i][2], form)])

CEnc(v) == CEncF(v, "short")
Forms == {"short", "long", "p15"}

\* message envelope: protocol id 0x82, version 1 | type << 5, varint seqid (as u32), name
CMsgBegin(name, mtype, seq32) ==
  <<130, 1 + 32 * mtype>> \o UVarint(seq32) \o U32V(Len(name)) \o name

-----------------------------------------------------------------------------
CFail == [ok |-> FALSE, val |-> [k |-> "err"], pos |-> 0]
COk(v, p) == [ok |-> TRUE, val |-> v, pos |-> p]
CHave(bytes, pos, n) == n >= 0 /\ pos + n <= Len(bytes)
CSlice(bytes, pos, n) == [i \in 1..n |-> bytes[pos + i]]

\* varint length / count that must fit in what is left; -1 on failure.  Result [n, len]
RdLen(bytes, pos) ==
  LET r == DecUVarint(bytes, pos, 32) IN
  IF ~r.ok \/ ~FitsNat31(r.val) THEN [n |-> -1, len |-> 0]
  ELSE IF ToNat(r.val) > Len(bytes) - (pos + r.n) THEN [n |-> -1, len |-> 0]
  ELSE [n |-> ToNat(r.val), len |-> r.n]

RECURSIVE CDec(_, _, _)
RECURSIVE CDecFields(_, _, _, _)
RECURSIVE CDecElems(_, _, _, _, _)
RECURSIVE CDecPairs(_, _, _, _, _, _)

CDecFields(bytes, pos, last, acc) ==
  IF ~CHave(bytes, pos, 1) THEN CFail
  ELSE LET h == bytes[pos + 1]
           ct == h % 16
           delta == h \div 16
       IN IF h = CT_STOP THEN COk([k |-> "struct", fs |-> acc], pos + 1)
          ELSE IF ct \notin 1..13 THEN CFail
          ELSE LET idr == IF delta # 0 THEN [ok |-> TRUE, id |-> last + delta, n |-> 0]
                          ELSE LET z == DecZVarint(bytes, pos + 1, 16) IN
                               [ok |-> z.ok, id |-> IF z.ok THEN ToInt(z.val) ELSE 0, n |-> z.n]
               IN IF ~idr.ok THEN CFail
                  ELSE IF ct \in {CT_TRUE, CT_FALSE}
                  THEN CDecFields(bytes, pos + 1 + idr.n, idr.id,
                                  Append(acc, [id |-> idr.id, x |-> [k |-> "bool", v |-> <<IF ct = CT_TRUE THEN 1 ELSE 0>>]]))
                  ELSE LET r == CDec(FromCompact(ct), bytes, pos + 1 + idr.n) IN
                       IF ~r.ok THEN CFail
                       ELSE CDecFields(bytes, r.pos, idr.id, Append(acc, [id |-> idr.id, x |-> r.val]))

CDecElems(t, bytes, pos, n, acc) ==
  IF n = 0 THEN COk(acc, pos)
  ELSE LET r == CDec(t, bytes, pos) IN
       IF ~r.ok THEN CFail ELSE CDecElems(t, bytes, r.pos, n - 1, Append(acc, r.val))

CDecPairs(kt, vt, bytes, pos, n, acc) ==
  IF n = 0 THEN COk(acc, pos)
  ELSE LET rk == CDec(kt, bytes, pos) IN
       IF ~rk.ok THEN CFail
       ELSE LET rv == CDec(vt, bytes, rk.pos) IN
            IF ~rv.ok THEN CFail ELSE CDecPairs(kt, vt, bytes, rv.pos, n - 1, Append(acc, <<rk.val, rv.val>>))

CDec(t, bytes, pos) ==
  CASE t = T_BOOL   -> IF ~CHave(bytes, pos, 1) THEN CFail
                       ELSE IF bytes[pos + 1] = CT_TRUE THEN COk([k |-> "bool", v |-> <<1>>], pos + 1)
                       ELSE IF bytes[pos + 1] \in {CT_FALSE, 0} THEN COk([k |-> "bool", v |-> <<0>>], pos + 1)
                       ELSE CFail
    [] t = T_I8     -> IF CHave(bytes, pos, 1) THEN COk([k |-> "i8", v |-> <<bytes[pos + 1]>>], pos + 1) ELSE CFail
    [] t = T_I16    -> LET z == DecZVarint(bytes, pos, 16) IN IF z.ok THEN COk([k |-> "i16", v |-> z.val], pos + z.n) ELSE CFail
    [] t = T_I32    -> LET z == DecZVarint(bytes, pos, 32) IN IF z.ok THEN COk([k |-> "i32", v |-> z.val], pos + z.n) ELSE CFail
    [] t = T_I64    -> LET z == DecZVarint(bytes, pos, 64) IN IF z.ok THEN COk([k |-> "i64", v |-> z.val], pos + z.n) ELSE CFail
    [] t = T_DOUBLE -> IF CHave(bytes, pos, 8) THEN COk([k |-> "double", v |-> [i \in 1..8 |-> bytes[pos + 9 - i]]], pos + 8) ELSE CFail
    [] t = T_UUID   -> IF CHave(bytes, pos, 16) THEN COk([k |-> "uuid", v |-> CSlice(bytes, pos, 16)], pos + 16) ELSE CFail
    [] t = T_BINARY -> LET l == RdLen(bytes, pos) IN
                       IF l.n < 0 THEN CFail ELSE COk([k |-> "binary", v |-> CSlice(bytes, pos + l.len, l.n)], pos + l.len + l.n)
    [] t = T_STRUCT -> CDecFields(bytes, pos, 0, <<>>)
    [] t \in {T_LIST, T_SET} ->
         IF ~CHave(bytes, pos, 1) THEN CFail
         ELSE LET h == bytes[pos + 1]
                  ct == h % 16
                  l == IF h \div 16 # 15 THEN [n |-> h \div 16, len |-> 0] ELSE RdLen(bytes, pos + 1)
              IN IF l.n < 0 \/ ct \notin 1..13 THEN CFail
                 ELSE LET r == CDecElems(FromCompact(ct), bytes, pos + 1 + l.len, l.n, <<>>) IN
                      IF ~r.ok THEN CFail
                      ELSE COk([k |-> IF t = T_LIST THEN "list" ELSE "set", et |-> FromCompact(ct), es |-> r.val], r.pos)
    [] t = T_MAP ->
         LET l == RdLen(bytes, pos) IN
         IF l.n < 0 THEN CFail
         ELSE IF l.n = 0 THEN COk([k |-> "map", kt |-> T_STOP, vt |-> T_STOP, kvs |-> <<>>], pos + l.len)
         ELSE IF ~CHave(bytes, pos + l.len, 1) THEN CFail
         ELSE LET h == bytes[pos + l.len + 1]
                  kc == h \div 16
                  vc == h % 16
              IN IF kc \notin 1..13 \/ vc \notin 1..13 THEN CFail
                 ELSE LET r == CDecPairs(FromCompact(kc), FromCompact(vc), bytes, pos + l.len + 1, l.n, <<>>) IN
                      IF ~r.ok THEN CFail
                      ELSE COk([k |-> "map", kt |-> FromCompact(kc), vt |-> FromCompact(vc), kvs |-> r.val], r.pos)
    [] OTHER -> CFail

\* envelope decoder
CMsgDec(bytes) ==
  LET bad == [ok |-> FALSE, name |-> <<>>, mtype |-> 0, seq |-> ZeroInt(32), pos |-> 0] IN
  IF ~CHave(bytes, 0, 2) \/ bytes[1] # 130 \/ bytes[2] % 32 # 1 \/ (bytes[2] \div 32) \notin MessageTypes THEN bad
  ELSE LET s == DecUVarint(bytes, 2, 32) IN
       IF ~s.ok THEN bad
       ELSE LET l == RdLen(bytes, 2 + s.n) IN
            IF l.n < 0 THEN bad
            ELSE [ok |-> TRUE, name |-> CSlice(bytes, 2 + s.n + l.len, l.n), mtype |-> bytes[2] \div 32,
                  seq |-> s.val, pos |-> 2 + s.n + l.len + l.n]

\* An empty map carries no key/value types on the wire: the decoded tree has kt = vt = STOP.
\* Canon maps a tree to what a compact decoder can recover from its encoding.
RECURSIVE CCanon(_)
CCanon(v) ==
  CASE v.k \in LeafKinds -> Erase(v)
    [] v.k = "struct" -> [k |-> "struct", fs |-> [i \in 1..Len(v.fs) |-> [id |-> v.fs[i].id, x |-> CCanon(v.fs[i].x)]]]
    [] v.k \in {"list", "set"} -> [k |-> v.k, et |-> v.et, es |-> [i \in 1..Len(v.es) |-> CCanon(v.es[i])]]
    [] v.k = "map" -> IF Len(v.kvs) = 0 THEN [k |-> "map", kt |-> T_STOP, vt |-> T_STOP, kvs |-> <<>>]
                      ELSE [k |-> "map", kt |-> v.kt, vt |-> v.vt,
                            kvs |-> [i \in 1..Len(v.kvs) |-> <<CCanon(v.kvs[i][1]), CCanon(v.kvs[i][2])>>]]
=============================================================================
