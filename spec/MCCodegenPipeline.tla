---- MODULE MCCodegenPipeline ----
EXTENDS CodegenPipeline
\* four files over three modules (files 1 and 4 share module 1); file 2 holds a protobuf message (item 21) with three
\* sibling nested messages
MCMods == {1, 2, 3}
MCFiles == << [mod |-> 1, items |-> <<11, 12>>], [mod |-> 2, items |-> <<21, 22>>], [mod |-> 3, items |-> <<31>>], [mod |-> 1, items |-> <<13>>] >>
\* file stems: items 11 and 13 collide inside module 1 (13 arrives with the second file of that module), 21 and 31 carry the
\* same stem as 11 in OTHER modules (what a name set outliving its module would trip over), 211 and 213 collide as siblings
MCStem == [x \in {11, 12, 13, 21, 22, 31, 211, 212, 213} |-> CASE x \in {11, 13, 21, 31} -> "a" [] x \in {211, 213} -> "n" [] OTHER -> ToString(x)]
MCNested == [x \in {11, 12, 13, 21, 22, 31} |-> IF x = 21 THEN <<211, 212, 213>> ELSE <<>>]
====
