---- MODULE MCCodegenPipeline ----
EXTENDS CodegenPipeline
\* four files over three modules (files 1 and 4 share module 1); file 2 holds a protobuf message (item 21) with three
\* sibling nested messages
MCMods == {1, 2, 3}
MCFiles == << [mod |-> 1, items |-> <<11, 12>>], [mod |-> 2, items |-> <<21, 22>>], [mod |-> 3, items |-> <<31>>], [mod |-> 1, items |-> <<13>>] >>
MCNested == [x \in {11, 12, 13, 21, 22, 31} |-> IF x = 21 THEN <<211, 212, 213>> ELSE <<>>]
====
