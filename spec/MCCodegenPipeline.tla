---- MODULE MCCodegenPipeline ----
EXTENDS CodegenPipeline
\* three modules; module 2 holds a protobuf message (item 21) with three sibling nested messages
MCMods == {1, 2, 3}
MCItems == [m \in MCMods |-> IF m = 1 THEN <<11, 12>> ELSE IF m = 2 THEN <<21, 22>> ELSE <<31>>]
MCNested == [x \in {11, 12, 21, 22, 31} |-> IF x = 21 THEN <<211, 212, 213>> ELSE <<>>]
====
