SPECIFICATION Spec
CONSTANTS
  Mods <- MCMods
  Files <- MCFiles
  Nested <- MCNested
  W = 3
  NestedOrder = "decl"
  FileOrder = "input"
  ItemOrder = "id"
  Stem <- MCStem
  NameScope = "module"
INVARIANT OutputIsFunctionOfInput
INVARIANT SplitOutputIsFunctionOfInput
INVARIANT SplitNamesDistinct
INVARIANT SplitIsPartition
PROPERTY Terminates
CHECK_DEADLOCK FALSE
