SPECIFICATION Spec
CONSTANTS
  Mods <- MCMods
  ItemsOf <- MCItems
  Nested <- MCNested
  W = 3
  NestedOrder = "decl"
INVARIANT OutputIsFunctionOfInput
PROPERTY Terminates
CHECK_DEADLOCK FALSE
