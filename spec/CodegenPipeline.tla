--------------------------- MODULE CodegenPipeline ---------------------------
(***************************************************************************)
(* As-built model of how pilota-build turns resolved items into text       *)
(* (codegen/mod.rs write_items, parser/protobuf/mod.rs lower_message):     *)
(*                                                                         *)
(*  0. files: the input files are lowered one after the other; definition *)
(*     ids are handed out in that order and fix the order of the items of  *)
(*     a module.  FileOrder selects the as-built behaviour ("input": the   *)
(*     order given) or a hash-map iteration ("hash").                      *)
(*  1. lowering: the nested messages of a protobuf message are lowered by  *)
(*     iterating a hash map keyed by their qualified name -- the iteration *)
(*     order is a function of the per-process hash seed.  NestedOrder      *)
(*     selects the as-built behaviour ("hash": any permutation) or the     *)
(*     repaired one ("decl": declaration order).                           *)
(*  2. grouping: items are grouped per module in a hash map (iteration     *)
(*     order = any permutation) whose entries keep the items' input order. *)
(*  3. emission of module bodies: a pool of W workers takes the groups in  *)
(*     iteration order, in any interleaving (work stealing), and appends   *)
(*     each group's items to that module's string in a concurrent map.     *)
(*  4. final emission walks the module tree SORTED by path.                *)
(*  5. split mode (write_split_mod): instead of appending the items of a   *)
(*     module to one string, the worker writes every item to a file of its *)
(*     own, `<kind>_<name>.rs`, and lists the files in the module's mod.rs *)
(*     in the order written.  Names that collide case-insensitively within *)
(*     a module get the suffix _2, _3, ... from a set of names already     *)
(*     used.  NameScope selects the as-built behaviour ("module": a fresh  *)
(*     set per module) or a set that lives as long as the worker           *)
(*     ("worker": a seeded change, /verif/seeded/c17e).                    *)
(*                                                                         *)
(* Property (C17): the emitted text is a function of the input only:       *)
(* whatever the hash orders and the schedule, the result equals Expected.  *)
(***************************************************************************)
EXTENDS Integers, Sequences, FiniteSets, TLC

CONSTANTS Mods,         \* set of module names (model values or strings)
          Files,        \* Seq of [mod, items]: the input files in the order given (imports included), each contributing
                        \* its items, in declaration order, to one module; two files may share a module (same package)
          FileOrder,    \* "input": files are lowered in the order given (as built) | "hash": in the iteration order of
                        \* a per-process-seeded hash map (a seeded change, /verif/seeded/c17a)
          ItemOrder,    \* "id": the items handed to the writer are in definition-id order (as built: collect_items keeps
                        \* them in an FxHashSet, whose iteration is a function of the ids) | "hash": in the iteration
                        \* order of a per-process-seeded set (a seeded change, /verif/seeded/c17c; only with
                        \* ignore_unused, the builder's default)
          Nested,       \* [item -> Seq(nested items)] sibling nested messages in declaration order
          W,            \* number of workers
          NestedOrder,  \* "hash" (as built before the fix) | "decl"
          Stem,         \* [item -> file stem]: `<kind>_<name>` lower-cased; items with equal stems collide
          NameScope     \* "module" (as built) | "worker"

VARIABLES groupOrder,   \* the iteration order of the group map (a permutation of Mods as a sequence)
          fileOrder,    \* the order in which the files are lowered (definition ids are handed out in this order,
                        \* and the items of a module are written in definition-id order)
          lowered,      \* [Mods -> Seq(items)] after lowering (nested items inserted)
          next,         \* index of the next group to hand out
          busy,         \* [1..W -> module being written or 0 (idle)]
          pkgs,         \* [Mods -> Seq(items)] text of a module (as the sequence of items written)
          out,          \* final output: Seq of <<module, text>>, or <<>> while running
          seen,         \* [1..W -> set of file names <<stem, k>> the worker's name set holds]
          files         \* [Mods -> Seq of <<file name, item>>]: split mode, the files of a module in the order of its mod.rs
vars == <<groupOrder, fileOrder, lowered, next, busy, pkgs, out, seen, files>>

Perms(S) == {f \in [1..Cardinality(S) -> S] : \A i, j \in 1..Cardinality(S) : i # j => f[i] # f[j]}
PermsOfSeq(s) == {[i \in 1..Len(s) |-> s[p[i]]] : p \in Perms(1..Len(s))}

RECURSIVE Flatten(_, _)
\* an item followed by its lowered nested items
Flatten(items, ord) == IF items = <<>> THEN <<>>
                       ELSE <<Head(items)>> \o ord[Head(items)] \o Flatten(Tail(items), ord)

\* items of module m when the files are lowered in order ford
RECURSIVE ItemsFrom(_, _, _)
ItemsFrom(ford, m, i) == IF i > Len(Files) THEN <<>>
                         ELSE (IF Files[ford[i]].mod = m THEN Files[ford[i]].items ELSE <<>>) \o ItemsFrom(ford, m, i + 1)
IdOrder == [i \in 1..Len(Files) |-> i]
ItemsOf == [m \in Mods |-> ItemsFrom(IdOrder, m, 1)]
FileOrders == IF FileOrder = "input" THEN {IdOrder} ELSE Perms(1..Len(Files))
AllItems == UNION {{ItemsOf[m][i] : i \in 1..Len(ItemsOf[m])} : m \in Mods}
NestedChoices == IF NestedOrder = "decl" THEN {Nested}
                 ELSE {f \in [AllItems -> UNION {PermsOfSeq(Nested[x]) : x \in AllItems}] : \A x \in AllItems : f[x] \in PermsOfSeq(Nested[x])}

Init == /\ groupOrder \in Perms(Mods)
        /\ fileOrder \in FileOrders
        /\ \E ord \in NestedChoices :
             IF ItemOrder = "id" THEN lowered = [m \in Mods |-> Flatten(ItemsFrom(fileOrder, m, 1), ord)]
             ELSE LET base == [m \in Mods |-> Flatten(ItemsFrom(fileOrder, m, 1), ord)]
                  IN \* (one module's items in any order is enough to tell the variants apart)
                     \E m0 \in Mods : \E p \in PermsOfSeq(base[m0]) : lowered = [m \in Mods |-> IF m = m0 THEN p ELSE base[m]]
        /\ next = 1 /\ busy = [w \in 1..W |-> 0] /\ pkgs = [m \in Mods |-> <<>>] /\ out = <<>>
        /\ seen = [w \in 1..W |-> {}] /\ files = [m \in Mods |-> <<>>]

\* generate_unique_name: the stem itself (k = 1) or the first stem_k (k = 2, 3, ...) the set does not hold
UniqueName(used, stem) == <<stem, CHOOSE k \in 1..(Cardinality(used) + 1) : <<stem, k>> \notin used /\ \A j \in 1..(k - 1) : <<stem, j>> \in used>>
\* the files of an item sequence, named one after the other against a growing set: [names, used]
RECURSIVE NameAll(_, _, _)
NameAll(items, used, acc) ==
  IF items = <<>> THEN [names |-> acc, used |-> used]
  ELSE LET n == UniqueName(used, Stem[Head(items)]) IN NameAll(Tail(items), used \cup {n}, Append(acc, <<n, Head(items)>>))

Take(w) == /\ busy[w] = 0 /\ next <= Cardinality(Mods)
           /\ busy' = [busy EXCEPT ![w] = groupOrder[next]] /\ next' = next + 1
           /\ seen' = IF NameScope = "module" THEN [seen EXCEPT ![w] = {}] ELSE seen
           /\ UNCHANGED <<groupOrder, fileOrder, lowered, pkgs, out, files>>
Write(w) == /\ busy[w] # 0
            /\ pkgs' = [pkgs EXCEPT ![busy[w]] = @ \o lowered[busy[w]]]
            /\ LET r == NameAll(lowered[busy[w]], seen[w], <<>>) IN
               /\ files' = [files EXCEPT ![busy[w]] = @ \o r.names]
               /\ seen' = [seen EXCEPT ![w] = r.used]
            /\ busy' = [busy EXCEPT ![w] = 0]
            /\ UNCHANGED <<groupOrder, fileOrder, lowered, next, out>>
\* sorted emission: Mods must be comparable (use strings or integers)
RECURSIVE SortedSeq(_)
SortedSeq(S) == IF S = {} THEN <<>> ELSE LET m == CHOOSE x \in S : \A y \in S : x <= y IN <<m>> \o SortedSeq(S \ {m})
Emit == /\ out = <<>> /\ next > Cardinality(Mods) /\ \A w \in 1..W : busy[w] = 0
        /\ out' = [i \in 1..Cardinality(Mods) |-> <<SortedSeq(Mods)[i], pkgs[SortedSeq(Mods)[i]]>>]
        /\ UNCHANGED <<groupOrder, fileOrder, lowered, next, busy, pkgs, seen, files>>
Next == Emit \/ \E w \in 1..W : Take(w) \/ Write(w)
Spec == Init /\ [][Next]_vars /\ WF_vars(Next)

Expected == [i \in 1..Cardinality(Mods) |-> <<SortedSeq(Mods)[i], Flatten(ItemsOf[SortedSeq(Mods)[i]], Nested)>>]
OutputIsFunctionOfInput == out # <<>> => out = Expected
\* split mode: the set of files, their names and the order of every mod.rs are a function of the input only ...
ExpectedFiles == [m \in Mods |-> NameAll(Flatten(ItemsOf[m], Nested), {}, <<>>).names]
SplitOutputIsFunctionOfInput == out # <<>> => files = ExpectedFiles
\* ... no two items of a module share a file (an item would be lost) ...
SplitNamesDistinct == \A m \in Mods : \A i, j \in 1..Len(files[m]) : i # j => files[m][i][1] # files[m][j][1]
\* ... and the files of a module hold exactly the items the single-file output of that module holds (bound to the code by the
\* partition check of lib/splitcheck.py: the real split output, include! lines resolved, is the real single-file output)
SplitIsPartition == out # <<>> => \A m \in Mods : [i \in 1..Len(files[m]) |-> files[m][i][2]] = pkgs[m]
Terminates == <>(out # <<>>)
=============================================================================
