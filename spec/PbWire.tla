------------------------------- MODULE PbWire -------------------------------
(***************************************************************************)
(* The protobuf wire format, written from the encoding specification       *)
(* (protobuf.dev/programming-guides/encoding): base-128 varints, keys      *)
(* (field number << 3 | wire type), the six wire types, ZigZag, fixed      *)
(* little-endian widths, length-delimited payloads, groups.                *)
(* 64-bit quantities are limb ints (module Ints).  Independent of pilota.  *)
(***************************************************************************)
EXTENDS Ints, TLC

WT_VARINT == 0  WT_I64 == 1  WT_LEN == 2  WT_SGROUP == 3  WT_EGROUP == 4  WT_I32 == 5

\* key of (field number, wire type): the number may use up to 29 bits
KeyBytes(tag, wt) ==
  LET t == FromInt(tag, 32)                      \* tag < 2^29
      k == Truncate(Shl1(Shl1(Shl1(ZeroExtend(t, 64)))), 64)
      k0 == [k EXCEPT ![1] = k[1] + wt]          \* low three bits are free after the shifts
  IN UVarint(k0)

VarintOf(x64) == UVarint(x64)                   \* x64: 4-limb unsigned
LenPrefix(n) == UVarint(FromInt(n, 32))

\* --- scalar payloads -------------------------------------------------------------------------
\* int32 / enum: sign-extended to 64 bits; uint32: zero-extended; sint32: ZigZag on 32 bits
EncInt32(x32)  == UVarint(SignExtend(x32, 64))
EncUInt32(x32) == UVarint(ZeroExtend(x32, 64))
EncSInt32(x32) == UVarint(ZeroExtend(ZigZag(x32), 64))
EncInt64(x64)  == UVarint(x64)
EncSInt64(x64) == UVarint(ZigZag(x64))
EncBool(b)     == <<b>>
EncFixed(x)    == LE(x)                          \* 2 or 4 limbs -> 4 or 8 bytes

\* --- total record parser -----------------------------------------------------------------------
\* A record: [tag, wt, u (varint value, 4 limbs), bytes (fixed / length-delimited payload / group body)]
\* ParseRecords returns [ok, recs] for a whole buffer; groups are returned with their raw body.
Rec(tag, wt, u, bytes) == [tag |-> tag, wt |-> wt, u |-> u, bytes |-> bytes]
PSlice(b, pos, n) == [i \in 1..n |-> b[pos + i]]

\* key: [ok, tag, wt, n]; the field number must be in 1..2^29-1
DecKey(b, pos) ==
  LET r == DecUVarint(b, pos, 64) IN
  IF ~r.ok THEN [ok |-> FALSE, tag |-> 0, wt |-> 0, n |-> 0]
  ELSE LET wt == r.val[1] % 8
           sh == Shr1(Shr1(Shr1(r.val)))
       IN IF ~FitsNat31(sh) \/ ToNat(sh) = 0 \/ ToNat(sh) > 536870911 \/ wt > 5
          THEN [ok |-> FALSE, tag |-> 0, wt |-> 0, n |-> 0]
          ELSE [ok |-> TRUE, tag |-> ToNat(sh), wt |-> wt, n |-> r.n]

RECURSIVE GroupEnd(_, _, _, _)
\* offset just behind the END_GROUP key matching `tag`, scanning records from pos; -1 on failure.
\* depth bounds the nesting of groups inside groups.
RECURSIVE SkipRec(_, _, _, _, _)
\* offset behind the record whose key (tag, wt) ended at pos; -1 on failure
SkipRec(b, pos, tag, wt, depth) ==
  CASE wt = WT_VARINT -> LET r == DecUVarint(b, pos, 64) IN IF r.ok THEN pos + r.n ELSE -1
    [] wt = WT_I64 -> IF pos + 8 <= Len(b) THEN pos + 8 ELSE -1
    [] wt = WT_I32 -> IF pos + 4 <= Len(b) THEN pos + 4 ELSE -1
    [] wt = WT_LEN -> LET r == DecUVarint(b, pos, 64) IN
                      IF ~r.ok \/ ~FitsNat31(r.val) THEN -1
                      ELSE IF pos + r.n + ToNat(r.val) <= Len(b) THEN pos + r.n + ToNat(r.val) ELSE -1
    [] wt = WT_SGROUP -> IF depth = 0 THEN -1 ELSE GroupEnd(b, pos, tag, depth - 1)
    [] OTHER -> -1
GroupEnd(b, pos, tag, depth) ==
  LET k == DecKey(b, pos) IN
  IF ~k.ok THEN -1
  ELSE IF k.wt = WT_EGROUP THEN (IF k.tag = tag THEN pos + k.n ELSE -1)
  ELSE LET e == SkipRec(b, pos + k.n, k.tag, k.wt, depth) IN
       IF e < 0 THEN -1 ELSE GroupEnd(b, e, tag, depth)

MaxGroupDepth == 100

RECURSIVE ParseFrom(_, _, _)
ParseFrom(b, pos, acc) ==
  IF pos = Len(b) THEN [ok |-> TRUE, recs |-> acc]
  ELSE LET k == DecKey(b, pos) IN
       IF ~k.ok \/ k.wt = WT_EGROUP THEN [ok |-> FALSE, recs |-> <<>>]
       ELSE LET p == pos + k.n
                e == SkipRec(b, p, k.tag, k.wt, MaxGroupDepth)
            IN IF e < 0 THEN [ok |-> FALSE, recs |-> <<>>]
               ELSE LET r == CASE k.wt = WT_VARINT -> Rec(k.tag, k.wt, DecUVarint(b, p, 64).val, <<>>)
                                [] k.wt = WT_LEN -> LET l == DecUVarint(b, p, 64) IN
                                                    Rec(k.tag, k.wt, ZeroInt(64), PSlice(b, p + l.n, ToNat(l.val)))
                                [] OTHER -> Rec(k.tag, k.wt, ZeroInt(64), PSlice(b, p, e - p))
                    IN ParseFrom(b, e, Append(acc, r))
ParseRecords(b) == ParseFrom(b, 0, <<>>)

\* a packed payload of varints / fixed-width values: [ok, vals]
RECURSIVE UnpackVarints(_, _, _)
UnpackVarints(b, pos, acc) ==
  IF pos = Len(b) THEN [ok |-> TRUE, vals |-> acc]
  ELSE LET r == DecUVarint(b, pos, 64) IN
       IF ~r.ok THEN [ok |-> FALSE, vals |-> <<>>] ELSE UnpackVarints(b, pos + r.n, Append(acc, r.val))
UnpackFixed(b, w) ==
  IF Len(b) % w # 0 THEN [ok |-> FALSE, vals |-> <<>>]
  ELSE [ok |-> TRUE, vals |-> [i \in 1..(Len(b) \div w) |-> PSlice(b, (i - 1) * w, w)]]
=============================================================================
