SPECIFICATION Spec
CONSTANTS
  Ids <- MCIds
  MaxDepth = 4
  MaxElems = 2
INVARIANTS Sync PendingDiscipline Fresh StackShape NoBad Emit
CHECK_DEADLOCK FALSE
