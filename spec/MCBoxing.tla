------------------------------ MODULE MCBoxing ------------------------------
(* Exhaustive exploration of the as-built boxing rule on all type graphs over {A, B, T}: A with one or two members, B with *)
(* one member, T a typedef of A or B; members refer to A, B or T directly, optionally, through a list or as a map value.   *)
(* Checks the characterisation theorem on every graph and writes every recursive graph with its SIGNATURE (the kinds and   *)
(* ways of the members that lie on cycles) and the predicted outcome, for the builder + rustc run of C14.                   *)
EXTENDS Boxing, TLC, Json, IOUtils, SequencesExt

Nodes == {"A", "B", "T"}
Vias == {"direct", "opt", "list", "map"}
Member == [to : Nodes, via : Vias]
Kinds == {"struct", "union"}
\* a union variant cannot be optional
OkMembers(k, ms) == k = "union" => \A i \in DOMAIN ms : ms[i].via # "opt"
Graphs ==
  {[kind |-> [n \in Nodes |-> IF n = "A" THEN ka ELSE IF n = "B" THEN kb ELSE "typedef"],
    out |-> [n \in Nodes |-> IF n = "A" THEN ma ELSE IF n = "B" THEN <<mb>> ELSE <<[to |-> tt, via |-> "direct"]>>]]
   : ka \in Kinds, kb \in Kinds, tt \in {"A", "B"}, mb \in Member,
     ma \in {<<m>> : m \in Member} \cup {<<m1, m2>> : m1 \in Member, m2 \in Member}}
Legal(g) == OkMembers(g.kind["A"], g.out["A"]) /\ OkMembers(g.kind["B"], g.out["B"])
Rec == {g \in Graphs : Legal(g) /\ Recursive(g)}

Theorem == \A g \in Rec : Characterisation(g)

\* signature: for every member on a cycle (kind of its owner, way, kind of its target), plus the prediction
Sig(g) == [ok |-> FiniteSize(g),
           ms |-> {<<g.kind[e.from], e.via, g.kind[e.to]>> : e \in {x \in EdgeSet(g) : Reaches(EdgeSet(g), x.to, x.from)}}]
\* every recursive graph with its prediction and signature (the harness picks representatives per signature)
Out == SetToSeq({[g |-> [kind |-> g.kind, out |-> g.out], ok |-> FiniteSize(g), sig |-> SetToSeq(Sig(g).ms)] : g \in Rec})
ASSUME Theorem
ASSUME PrintT(<<"graphs", Cardinality(Graphs), "recursive", Cardinality(Rec)>>)
ASSUME ndJsonSerialize(IOEnv.VERIF_OUT, Out)
=============================================================================
