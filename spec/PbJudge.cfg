
