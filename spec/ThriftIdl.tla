------------------------------ MODULE ThriftIdl ------------------------------
(***************************************************************************)
(* The Thrift IDL front end (properties C15, C16).                         *)
(*                                                                         *)
(*  1. The descriptor AST of pilota-thrift-parser (descriptor/*.rs) as a   *)
(*     TLA+ datatype: documents are sequences of items built with the      *)
(*     constructors below (grammar G_thrift of DESIGN.md section 5).       *)
(*  2. A PRINTER: Toks(doc) is the token sequence of a document.  Tokens   *)
(*     carry a lexical class                                               *)
(*        "w"  word-like (keyword, identifier, dotted path, number, scope) *)
(*        "p"  punctuation   { } ( ) [ ] < > : = and the `,` of map<K,V>   *)
(*        "l"  string literal (s = the CONTENT; the quote is a choice)     *)
(*        "s"  list-separator slot: a ListSeparator? position of the       *)
(*             Apache IDL grammar (after a field, an enum value, a         *)
(*             function, a const, a typedef, a list / map constant         *)
(*             element, an annotation)                                     *)
(*     and a role (context.position) used only to name findings.           *)
(*  3. LAYOUTS: everything the IDL leaves free.  A layout chooses, for a   *)
(*     token sequence of length n,                                         *)
(*        g[1..n+1]  the blank in front of token j (g[n+1]: at the end):   *)
(*                   an index into GapPool (0 = nothing) -- white space,   *)
(*                   `// c`, `# c`, `/* c */` and mixtures                 *)
(*        ch[1..n]   per separator slot 0 = none | 1 = `,` | 2 = `;`,      *)
(*                   per literal 0 = "double" | 1 = 'single' quotes        *)
(*     Pieces(T, lay) is the rendering as a list of 2n+1 strings (blank,   *)
(*     token, blank, ..., token, blank); the text of the document is their *)
(*     concatenation (TLC cannot build character strings, the harness      *)
(*     concatenates).  Every layout of one document has the same number of *)
(*     pieces, so layouts can be compared slot by slot.                    *)
(*  4. Unamb(T, lay): the printer is unambiguous -- two word-like tokens   *)
(*     are never adjacent, an omitted separator is followed by a blank, a  *)
(*     literal is quoted with a quote its content does not contain, and a  *)
(*     line comment without line end only occurs at the end of the text.   *)
(*  5. Exp(doc): the descriptor `File::parse` must return, in the explicit *)
(*     JSON form the harness also produces by walking the parsed `File`    *)
(*     (harness/src/idl.rs).  Options are sequences of length 0 or 1.      *)
(*     Two as-built rules are part of Exp (they are the parser's           *)
(*     documented behaviour, not findings):                                *)
(*       - function ARGUMENTS with default requiredness are `required`     *)
(*         (parser/function.rs); throws fields keep `default`;             *)
(*       - integer constants are 64-bit and rendered in decimal, doubles   *)
(*         keep their source text.                                         *)
(***************************************************************************)
EXTENDS Integers, Sequences, TLC

RECURSIVE Flat(_)
Flat(ss) == IF Len(ss) = 0 THEN <<>> ELSE Head(ss) \o Flat(Tail(ss))

\* --------------------------------------------------------------------------- the AST
None == <<>>
Some(x) == <<x>>

\* literals: content + which quotes can render it ("any" | "d" only double | "s" only single)
\* lc: lexical class (names findings only)
LitX(s, q, lc) == [s |-> s, q |-> q, lc |-> lc]
Lit(s) == LitX(s, "any", "")
LitD(s) == LitX(s, "d", "")
LitS(s) == LitX(s, "s", "")

BaseNames == <<"bool", "byte", "i8", "i16", "i32", "i64", "double", "string", "binary", "uuid">>
TBase(n) == [k |-> "base", n |-> n]
TVoid == [k |-> "base", n |-> "void"]
TList(v) == [k |-> "list", v |-> v]
TSet(v) == [k |-> "set", v |-> v]
TMap(kt, v) == [k |-> "map", kt |-> kt, v |-> v]
TPath(p) == [k |-> "path", p |-> p]

\* constant values.  Integers: txt = source text, val = the 64-bit value in decimal, lc = lexical class
CBool(b) == [k |-> "bool", b |-> b]
CPath(p) == [k |-> "path", p |-> p]
CStr(l) == [k |-> "str", l |-> l]
CIntT(txt, val, lc) == [k |-> "int", txt |-> txt, val |-> val, lc |-> lc]
CInt(n) == CIntT(ToString(n), ToString(n), IF n = 0 THEN "zero" ELSE IF n < 0 THEN "neg" ELSE "pos")
CDouble(txt, lc) == [k |-> "double", txt |-> txt, lc |-> lc]
CList(es) == [k |-> "list", es |-> es]
CMap(ps) == [k |-> "map", ps |-> ps]            \* ps: sequence of <<key, value>>

Ann(key, l) == [key |-> key, l |-> l]
Field(id, attr, ty, name, def, anns) == [id |-> id, attr |-> attr, ty |-> ty, name |-> name, def |-> def, anns |-> anns]
Attrs == <<"default", "required", "optional">>
Fn(oneway, ret, name, args, throws, anns) ==
  [oneway |-> oneway, ret |-> ret, name |-> name, args |-> args, throws |-> throws, anns |-> anns]
EnumVal(name, val, anns) == [name |-> name, val |-> val, anns |-> anns]        \* val: option of an int constant

Include(l) == [k |-> "include", l |-> l]
CppInclude(l) == [k |-> "cpp_include", l |-> l]
Namespace(scope, path) == [k |-> "namespace", scope |-> scope, path |-> path]
Typedef(ty, alias, anns) == [k |-> "typedef", ty |-> ty, alias |-> alias, anns |-> anns]
Const(ty, name, val) == [k |-> "const", ty |-> ty, name |-> name, val |-> val]
Enum(name, vals, anns) == [k |-> "enum", name |-> name, vals |-> vals, anns |-> anns]
Struct(name, fields, anns) == [k |-> "struct", name |-> name, fields |-> fields, anns |-> anns]
Union(name, fields) == [k |-> "union", name |-> name, fields |-> fields, anns |-> <<>>]
Exception(name, fields) == [k |-> "exception", name |-> name, fields |-> fields, anns |-> <<>>]
Service(name, ext, fns) == [k |-> "service", name |-> name, ext |-> ext, fns |-> fns]

Doc(name, mode, items) == [name |-> name, mode |-> mode, items |-> items]

\* --------------------------------------------------------------------------- the printer
Tk(s, c, r, q, x) == [s |-> s, c |-> c, r |-> r, q |-> q, x |-> x]
W(s, r) == Tk(s, "w", r, "", "")
WX(s, r, x) == Tk(s, "w", r, "", x)
P(s, r) == Tk(s, "p", r, "", "")
L(l, r) == Tk(l.s, "l", r, l.q, l.lc)
S(r) == Tk("", "s", r, "", "")

RECURSIVE TypeToks(_, _)
TypeToks(t, c) ==
  CASE t.k = "base" -> <<W(t.n, c \o ".ty.base")>>
    [] t.k = "path" -> <<W(t.p, c \o ".ty.path")>>
    [] t.k = "list" -> <<W("list", c \o ".ty.kw"), P("<", c \o ".ty.open")>> \o TypeToks(t.v, c) \o <<P(">", c \o ".ty.close")>>
    [] t.k = "set"  -> <<W("set", c \o ".ty.kw"), P("<", c \o ".ty.open")>> \o TypeToks(t.v, c) \o <<P(">", c \o ".ty.close")>>
    [] t.k = "map"  -> <<W("map", c \o ".ty.kw"), P("<", c \o ".ty.open")>> \o TypeToks(t.kt, c) \o <<P(",", c \o ".ty.comma")>>
                         \o TypeToks(t.v, c) \o <<P(">", c \o ".ty.close")>>

RECURSIVE CVToks(_, _)
CVToks(v, c) ==
  CASE v.k = "bool" -> <<W(IF v.b THEN "true" ELSE "false", c \o ".cv.bool")>>
    [] v.k = "path" -> <<W(v.p, c \o ".cv.path")>>
    [] v.k = "str"  -> <<L(v.l, c \o ".cv.str")>>
    [] v.k = "int"  -> <<WX(v.txt, c \o ".cv.int", v.lc)>>
    [] v.k = "double" -> <<WX(v.txt, c \o ".cv.double", v.lc)>>
    [] v.k = "list" -> <<P("[", c \o ".cv.lopen")>>
                         \o Flat([i \in 1..Len(v.es) |-> CVToks(v.es[i], c) \o <<S(c \o ".cv.lsep")>>])
                         \o <<P("]", c \o ".cv.lclose")>>
    [] v.k = "map"  -> <<P("{", c \o ".cv.mopen")>>
                         \o Flat([i \in 1..Len(v.ps) |-> CVToks(v.ps[i][1], c) \o <<P(":", c \o ".cv.colon")>>
                                                          \o CVToks(v.ps[i][2], c) \o <<S(c \o ".cv.msep")>>])
                         \o <<P("}", c \o ".cv.mclose")>>

AnnToks(as, c) ==
  IF Len(as) = 0 THEN <<>>
  ELSE <<P("(", c \o ".ann.open")>>
         \o Flat([i \in 1..Len(as) |-> <<W(as[i].key, c \o ".ann.key"), P("=", c \o ".ann.eq"), L(as[i].l, c \o ".ann.value"),
                                        S(c \o ".ann.sep")>>])
         \o <<P(")", c \o ".ann.close")>>

FieldToks(f, c) ==
  <<WX(ToString(f.id), c \o ".id", "fieldid"), P(":", c \o ".colon")>>
    \o (IF f.attr = "default" THEN <<>> ELSE <<W(f.attr, c \o ".attr")>>)
    \o TypeToks(f.ty, c)
    \o <<W(f.name, c \o ".name")>>
    \o (IF Len(f.def) = 0 THEN <<>> ELSE <<P("=", c \o ".eq")>> \o CVToks(f.def[1], c))
    \o AnnToks(f.anns, c)
    \o <<S(c \o ".sep")>>

FieldsToks(fs, c) == Flat([i \in 1..Len(fs) |-> FieldToks(fs[i], c)])

FnToks(f) ==
  (IF f.oneway THEN <<W("oneway", "fn.oneway")>> ELSE <<>>)
    \o TypeToks(f.ret, "fn")
    \o <<W(f.name, "fn.name"), P("(", "fn.popen")>> \o FieldsToks(f.args, "arg") \o <<P(")", "fn.pclose")>>
    \o (IF Len(f.throws) = 0 THEN <<>>
        ELSE <<W("throws", "fn.throws"), P("(", "fn.topen")>> \o FieldsToks(f.throws, "throw") \o <<P(")", "fn.tclose")>>)
    \o AnnToks(f.anns, "fn")
    \o <<S("fn.sep")>>

EnumValToks(v) ==
  <<W(v.name, "enumval.name")>>
    \o (IF Len(v.val) = 0 THEN <<>> ELSE <<P("=", "enumval.eq"), WX(v.val[1].txt, "enumval.int", v.val[1].lc)>>)
    \o AnnToks(v.anns, "enumval")
    \o <<S("enumval.sep")>>

ItemToks(it) ==
  CASE it.k = "include" -> <<W("include", "include.kw"), L(it.l, "include.lit")>>
    [] it.k = "cpp_include" -> <<W("cpp_include", "cpp_include.kw"), L(it.l, "cpp_include.lit")>>
    [] it.k = "namespace" -> <<W("namespace", "namespace.kw"), W(it.scope, "namespace.scope"), W(it.path, "namespace.path")>>
    [] it.k = "typedef" -> <<W("typedef", "typedef.kw")>> \o TypeToks(it.ty, "typedef") \o <<W(it.alias, "typedef.name")>>
                             \o AnnToks(it.anns, "typedef") \o <<S("typedef.sep")>>
    [] it.k = "const" -> <<W("const", "const.kw")>> \o TypeToks(it.ty, "const") \o <<W(it.name, "const.name"), P("=", "const.eq")>>
                           \o CVToks(it.val, "const") \o <<S("const.sep")>>
    [] it.k = "enum" -> <<W("enum", "enum.kw"), W(it.name, "enum.name"), P("{", "enum.open")>>
                          \o Flat([i \in 1..Len(it.vals) |-> EnumValToks(it.vals[i])])
                          \o <<P("}", "enum.close")>> \o AnnToks(it.anns, "enum")
    [] it.k \in {"struct", "union", "exception"} ->
                        <<W(it.k, it.k \o ".kw"), W(it.name, it.k \o ".name"), P("{", it.k \o ".open")>>
                          \o FieldsToks(it.fields, "field")
                          \o <<P("}", it.k \o ".close")>> \o AnnToks(it.anns, it.k)
    [] it.k = "service" -> <<W("service", "service.kw"), W(it.name, "service.name")>>
                             \o (IF Len(it.ext) = 0 THEN <<>> ELSE <<W("extends", "service.extends"), W(it.ext[1], "service.base")>>)
                             \o <<P("{", "service.open")>> \o Flat([i \in 1..Len(it.fns) |-> FnToks(it.fns[i])])
                             \o <<P("}", "service.close")>>

Toks(doc) == Flat([i \in 1..Len(doc.items) |-> ItemToks(doc.items[i])])

\* --------------------------------------------------------------------------- the expected descriptor
RECURSIVE ExpType(_)
ExpType(t) ==
  CASE t.k = "base" -> [t |-> t.n]
    [] t.k = "path" -> [t |-> "path", p |-> t.p]
    [] t.k = "list" -> [t |-> "list", v |-> ExpType(t.v)]
    [] t.k = "set"  -> [t |-> "set", v |-> ExpType(t.v)]
    [] t.k = "map"  -> [t |-> "map", k |-> ExpType(t.kt), v |-> ExpType(t.v)]

RECURSIVE ExpCV(_)
ExpCV(v) ==
  CASE v.k = "bool" -> [bool |-> v.b]
    [] v.k = "path" -> [path |-> v.p]
    [] v.k = "str"  -> [str |-> v.l.s]
    [] v.k = "int"  -> [int |-> v.val]
    [] v.k = "double" -> [double |-> v.txt]
    [] v.k = "list" -> [list |-> [i \in 1..Len(v.es) |-> ExpCV(v.es[i])]]
    [] v.k = "map"  -> [map |-> [i \in 1..Len(v.ps) |-> <<ExpCV(v.ps[i][1]), ExpCV(v.ps[i][2])>>]]

ExpAnns(as) == [i \in 1..Len(as) |-> [key |-> as[i].key, value |-> as[i].l.s]]

\* as built: an argument without requiredness is `required` (parser/function.rs)
ExpField(f, isArg) ==
  [id |-> f.id, attr |-> IF isArg /\ f.attr = "default" THEN "required" ELSE f.attr, ty |-> ExpType(f.ty), name |-> f.name,
   default |-> [i \in 1..Len(f.def) |-> ExpCV(f.def[i])], annotations |-> ExpAnns(f.anns)]
ExpFields(fs, isArg) == [i \in 1..Len(fs) |-> ExpField(fs[i], isArg)]

ExpFn(f) == [name |-> f.name, oneway |-> f.oneway, ret |-> ExpType(f.ret), args |-> ExpFields(f.args, TRUE),
             throws |-> ExpFields(f.throws, FALSE), annotations |-> ExpAnns(f.anns)]

ExpStructLike(it) == [name |-> it.name, fields |-> ExpFields(it.fields, FALSE), annotations |-> ExpAnns(it.anns)]

ExpItem(it) ==
  CASE it.k = "include" -> [include |-> it.l.s]
    [] it.k = "cpp_include" -> [cpp_include |-> it.l.s]
    [] it.k = "namespace" -> [namespace |-> [scope |-> it.scope, name |-> it.path, annotations |-> <<>>]]
    [] it.k = "typedef" -> [typedef |-> [ty |-> ExpType(it.ty), alias |-> it.alias, annotations |-> ExpAnns(it.anns)]]
    [] it.k = "const" -> [const |-> [ty |-> ExpType(it.ty), name |-> it.name, value |-> ExpCV(it.val), annotations |-> <<>>]]
    [] it.k = "enum" -> [enum |-> [name |-> it.name,
                                   values |-> [i \in 1..Len(it.vals) |->
                                                 [name |-> it.vals[i].name,
                                                  value |-> [j \in 1..Len(it.vals[i].val) |-> it.vals[i].val[j].val],
                                                  annotations |-> ExpAnns(it.vals[i].anns)]],
                                   annotations |-> ExpAnns(it.anns)]]
    [] it.k = "struct" -> [struct |-> ExpStructLike(it)]
    [] it.k = "union" -> [union |-> ExpStructLike(it)]
    [] it.k = "exception" -> [exception |-> ExpStructLike(it)]
    [] it.k = "service" -> [service |-> [name |-> it.name, extends |-> it.ext,
                                         functions |-> [i \in 1..Len(it.fns) |-> ExpFn(it.fns[i])], annotations |-> <<>>]]

\* File.package: the path of the first `namespace rs`
IsRsNs(it) == it.k = "namespace" /\ it.scope = "rs"
Package(items) ==
  LET idx == {i \in 1..Len(items) : IsRsNs(items[i])} IN
  IF idx = {} THEN <<>> ELSE <<items[CHOOSE i \in idx : \A j \in idx : i <= j].path>>

Exp(doc) == [package |-> Package(doc.items), items |-> [i \in 1..Len(doc.items) |-> ExpItem(doc.items[i])]]

\* --------------------------------------------------------------------------- layouts
\* blanks; index 0 is "no blank".  1..5 are the five kinds of DESIGN 3.9, the rest are mixtures and
\* comments whose text looks like IDL, quotes or other comment openers
GapPool == << "", " ", "\n", "// c\n", "# c\n", "/* c */",
              "\t", "\r\n", "  \n\n  ", "//\n", "#\n", "/**/",
              "/* it's // \"q\" # */", "// it's /* \"q\" # {\n", "/* multi\n * line * / */",
              "# struct X { 1: i32 a }\n", "/** doc **/", " // c\n /* d */ # e\n " >>
NGap == Len(GapPool) - 1
\* line comments without a line end: legal only at the very end of the text (gap index 100 + i)
EofPool == << "// eof", "# eof", "//", "#" >>
GapText(g) == IF g >= 100 THEN EofPool[g - 99] ELSE GapPool[g + 1]
BasicGaps == 0..5

SepText(c) == CASE c = 0 -> "" [] c = 1 -> "," [] c = 2 -> ";"
Quote(c) == IF c = 0 THEN "\"" ELSE "'"

TokText(t, c) ==
  CASE t.c = "s" -> SepText(c)
    [] t.c = "l" -> Quote(c) \o t.s \o Quote(c)
    [] OTHER -> t.s

\* 2n+1 pieces: blank, token, blank, ..., token, blank
Pieces(T, lay) ==
  [m \in 1..(2 * Len(T) + 1) |-> IF m % 2 = 1 THEN GapText(lay.g[(m + 1) \div 2]) ELSE TokText(T[m \div 2], lay.ch[m \div 2])]

Absent(T, lay, i) == T[i].c = "s" /\ lay.ch[i] = 0
HasGap(lay, j) == lay.g[j] # 0

\* printer unambiguity
Unamb(T, lay) ==
  LET n == Len(T) IN
  /\ Len(lay.g) = n + 1 /\ Len(lay.ch) = n
  /\ \A j \in 1..n : lay.g[j] < 100                                              \* eof-only comments only at the end
  /\ \A i \in 1..n : /\ T[i].c = "l" => (lay.ch[i] \in {0, 1} /\ (T[i].q = "d" => lay.ch[i] = 0) /\ (T[i].q = "s" => lay.ch[i] = 1))
                     /\ T[i].c = "s" => lay.ch[i] \in {0, 1, 2}
  /\ \A i \in 1..(n - 1) : (T[i].c = "w" /\ T[i + 1].c = "w") => HasGap(lay, i + 1)          \* never two words in a row
  /\ \A i \in 1..n : Absent(T, lay, i) => HasGap(lay, i + 1) \/ (i = n)                       \* omitted separator: a blank follows
  /\ \A i \in 1..(n - 2) : (T[i].c = "w" /\ Absent(T, lay, i + 1) /\ T[i + 2].c = "w") => (HasGap(lay, i + 1) \/ HasGap(lay, i + 2))

\* make an arbitrary choice vector printable: put a space where a blank is mandatory
Fix(T, lay) ==
  LET n == Len(T)
      ch == [i \in 1..n |-> IF T[i].c = "l" THEN (IF T[i].q = "d" THEN 0 ELSE IF T[i].q = "s" THEN 1 ELSE lay.ch[i] % 2)
                            ELSE IF T[i].c = "s" THEN lay.ch[i] % 3 ELSE 0]
      l2 == [g |-> lay.g, ch |-> ch]
  IN [g |-> [j \in 1..(n + 1) |->
               IF j = 1 \/ lay.g[j] # 0 THEN (IF j <= n /\ lay.g[j] >= 100 THEN 1 ELSE lay.g[j])
               ELSE IF j <= n /\ Absent(T, l2, j - 1) THEN 1
               ELSE IF j <= n /\ T[j - 1].c = "w" /\ T[j].c = "w" THEN 1
               ELSE 0],
      ch |-> ch]

\* the default layout: one space between tokens, nothing in front of a separator, `,` everywhere, double quotes
Default(T) ==
  LET n == Len(T) IN
  [g |-> [j \in 1..(n + 1) |-> IF j = 1 \/ j = n + 1 THEN 0 ELSE IF T[j].c = "s" THEN 0 ELSE 1],
   ch |-> [i \in 1..n |-> IF T[i].c = "s" THEN 1 ELSE IF T[i].c = "l" /\ T[i].q = "s" THEN 1 ELSE 0]]

\* the tight layout: no blank wherever the printer may omit it
Tight(T) ==
  LET n == Len(T) IN
  [g |-> [j \in 1..(n + 1) |-> IF j > 1 /\ j <= n /\ T[j - 1].c = "w" /\ T[j].c = "w" THEN 1 ELSE 0],
   ch |-> Default(T).ch]

\* base with one choice point changed (then made printable: omitting a separator forces the blank behind it)
WithGap(T, base, j, g) == [g |-> [base.g EXCEPT ![j] = g], ch |-> base.ch]
WithCh(T, base, i, c) == Fix(T, [g |-> base.g, ch |-> [base.ch EXCEPT ![i] = c]])

\* pseudo-random choice vectors from a seed (a small full-period LCG; all intermediate values fit 32 bits)
Mix(a) == ((a % 65521) * 75 + 74) % 65537
Hash(seed, d, r, j) == Mix(Mix(Mix(Mix(seed + 131 * d) + 7919 * r) + 31 * j) + d + r)
Random(T, seed, d, r) ==
  LET n == Len(T)
      \* three temperatures: mostly-plain, mixed, everything
      pick(h) == IF r % 3 = 0 THEN (IF h % 4 = 0 THEN (h \div 4) % (NGap + 1) ELSE (h \div 4) % 3)
                 ELSE IF r % 3 = 1 THEN (h \div 4) % 6
                 ELSE (h \div 4) % (NGap + 1)
  IN Fix(T, [g |-> [j \in 1..(n + 1) |-> IF j = n + 1 /\ Hash(seed, d, r, 0) % 5 = 0
                                           THEN 100 + (Hash(seed, d, r, 1) % Len(EofPool))
                                           ELSE pick(Hash(seed, d, r, 2 * j))],
                     ch |-> [i \in 1..n |-> Hash(seed, d, r, 2 * i + 1) \div 8]])
=============================================================================
