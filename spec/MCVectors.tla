----------------------------- MODULE MCVectors -----------------------------
(***************************************************************************)
(* TLC as evaluator of the reference codecs: for every tree of the bounded *)
(* universe, check the model-level theorems (the oracle is self-consistent)*)
(* and write one test vector per tree to the file named by VERIF_OUT.      *)
(*   theorems:  BinDec(BinEnc(v)) = Erase(v), consuming exactly the bytes  *)
(*              (both endiannesses, and with any non-zero TRUE byte);      *)
(*              CDec(CEncF(v, f)) = CCanon(v) for every legal form f;      *)
(*              BinLen(v) = Len(BinEnc(v));                                *)
(*              every strict prefix of a struct encoding is an error.      *)
(***************************************************************************)
EXTENDS ThriftUniverse, ThriftBinary, ThriftCompact, ThriftSkip, TLC, Json, IOUtils

Tier == IF "VERIF_TIER" \in DOMAIN IOEnv THEN IOEnv.VERIF_TIER ELSE "quick"
VSet == IF "VERIF_SET" \in DOMAIN IOEnv THEN IOEnv.VERIF_SET ELSE "universe"
\* exhaustive small integers: all i8; all i16 (thorough) or every 97th plus the extremes (quick)
I16Range == IF Tier = "thorough" THEN -32768..32767
            ELSE {n \in -32768..32767 : n % 97 = 0} \cup {-32768, -32767, 32766, 32767, -8193, -8192, 8191, 8192}
IntTrees == [b \in 1..256 |-> Leaf("i8", <<b - 1>>)] \o SetToSeq({Leaf("i16", FromInt(n, 16)) : n \in I16Range})
\* nesting depth 1..80 around the skip budget of 64, for structs, lists and maps
DeepDepths == IF Tier = "thorough" THEN 1..80 ELSE {1, 2, 30, 62, 63, 64, 65, 80}
DeepTrees == SetToSeq({DeepStruct(d) : d \in DeepDepths}) \o SetToSeq({DeepList(d) : d \in DeepDepths})
               \o SetToSeq({DeepMap(d) : d \in DeepDepths})
               \o SetToSeq({Struct(<<Fld(1, Leaf("i8", <<1>>)), Fld(2, DeepStruct(d)), Fld(3, Leaf("bool", <<1>>))>>) : d \in {62, 63, 64}})
Trees == IF VSet = "ints" THEN IntTrees
         ELSE IF VSet = "deep" THEN DeepTrees
         ELSE IF Tier = "thorough"
         THEN QuickTrees \o SetToSeq(FBig) \o <<DeepStruct(12), DeepList(12), DeepMap(12)>>
         ELSE QuickTrees \o <<CHOOSE x \in FBig : x.k = "struct">>

HasBool(bytes1, bytes255) == bytes1 # bytes255

PrefixesFail(v, b, c) ==
  v.k = "struct" /\ Len(b) <= 48 =>
     /\ \A n \in 0..(Len(b) - 1) : ~BinDec(T_STRUCT, SubSeq(b, 1, n), 0, FALSE).ok
     /\ \A n \in 0..(Len(c) - 1) : ~CDec(T_STRUCT, SubSeq(c, 1, n), 0).ok

Vec(i) ==
  LET v  == Trees[i]
      t  == TTypeOf(v)
      b  == BinEnc(v, FALSE)
      bl == BinEnc(v, TRUE)
      bt == BinEncB(v, FALSE, 255)
      cs == CEncF(v, "short")
      cl == CEncF(v, "long")
      cp == CEncF(v, "p15")
      thm == /\ WellTyped(v)
             /\ BinDec(t, b, 0, FALSE) = Ok(Erase(v), Len(b))
             /\ BinDec(t, bl, 0, TRUE) = Ok(Erase(v), Len(bl))
             /\ BinDec(t, bt, 0, FALSE) = Ok(Erase(v), Len(bt))
             /\ BinDec(t, b \o <<7, 7>>, 0, FALSE).pos = Len(b)
             /\ CDec(t, cs, 0) = COk(CCanon(v), Len(cs))
             /\ CDec(t, cl, 0) = COk(CCanon(v), Len(cl))
             /\ CDec(t, cp, 0) = COk(CCanon(v), Len(cp))
             /\ CDec(t, cs \o <<7, 7>>, 0).pos = Len(cs)
             /\ BinLen(v) = Len(b) /\ Len(bl) = Len(b)
             /\ PrefixesFail(v, b, cs)
  IN IF Assert(thm, <<"oracle theorem fails for vector", i, v>>)
     THEN [id |-> i, t |-> t, depth |-> Depth(v), need |-> Need(v), v |-> v, bin |-> b, binle |-> bl,
           bint |-> IF bt = b THEN <<>> ELSE bt,
           cs |-> cs, cl |-> IF cl = cs THEN <<>> ELSE cl, cp |-> IF cp = cs THEN <<>> ELSE cp]
     ELSE [id |-> i]

ASSUME ndJsonSerialize(IOEnv.VERIF_OUT, [i \in 1..Len(Trees) |-> Vec(i)])
ASSUME PrintT(<<"VECTORS", Len(Trees)>>)
=============================================================================
