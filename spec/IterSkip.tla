------------------------------ MODULE IterSkip ------------------------------
(***************************************************************************)
(* As-built model of the ITERATIVE skipper of the unchecked binary reader  *)
(* (TBinaryUnsafeInputProtocol::skip_till_depth, binary_unsafe.rs): a      *)
(* hand-written push-down automaton.  One action = one iteration of its    *)
(* `loop`.  State:                                                         *)
(*    input   the bytes at and behind the value (offset 0 = the cursor     *)
(*            when the skipper is entered)                                 *)
(*    ttype   the wire type handled by the next iteration                  *)
(*    index   cursor, len  bytes accounted so far                          *)
(*    stack   pending composites: <<[t |-> <<t0, t1>>, n |-> slots]>>      *)
(*            (a struct is one slot that stays until its stop byte; a      *)
(*            list / set has n slots of the element type; a map 2n slots   *)
(*            whose type is picked by the PARITY of the remaining count)   *)
(*    pc      "idle" | "loop" | "done";  ret  result (-1 = error)          *)
(* Fast paths: a fixed-size field of a struct is consumed inside the       *)
(* struct's iteration (`continue`: the tail of the loop body is not run);  *)
(* containers of fixed-size elements are consumed in one step.             *)
(* Properties (C07, C11, C13): on a well-formed value the skipper ends     *)
(* with ret = index = length of the ideal encoding and an empty stack,     *)
(* and never looks behind the value.                                       *)
(* The same actions, bound to the events the hook emits at the head of     *)
(* the loop, form the trace specification IterSkipTrace.                   *)
(***************************************************************************)
EXTENDS Integers, Sequences, TLC

VARIABLES input, expect, ttype, index, len, stack, pc, ret
svars == <<input, expect, ttype, index, len, stack, pc, ret>>

S_STOP == 0  S_BOOL == 2  S_I8 == 3  S_DOUBLE == 4  S_I16 == 6  S_I32 == 8  S_I64 == 10  S_BINARY == 11
S_STRUCT == 12  S_MAP == 13  S_SET == 14  S_LIST == 15  S_UUID == 16
\* BINARY_BASIC_TYPE_FIXED_SIZE (thrift/mod.rs)
Fixed(t) == CASE t \in {S_BOOL, S_I8} -> 1 [] t = S_I16 -> 2 [] t = S_I32 -> 4 [] t \in {S_I64, S_DOUBLE} -> 8
              [] t = S_UUID -> 16 [] OTHER -> 0
\* TType::try_from
Valid(t) == t \in {0, 1, 2, 3, 4, 6, 8, 10, 11, 12, 13, 14, 15, 16}
At(i) == IF i + 1 <= Len(input) THEN input[i + 1] ELSE 0      \* reads behind the input are the caller's breach of contract
\* big-endian u32 / u16 at offset i; counts and lengths of well-formed test inputs are far below 2^31
U32(i) == At(i) * 16777216 + At(i + 1) * 65536 + At(i + 2) * 256 + At(i + 3)

Idle == /\ pc = "idle" /\ input = <<>> /\ expect = 0 /\ ttype = 0 /\ index = 0 /\ len = 0 /\ stack = <<>> /\ ret = 0

\* entry: skip_till_depth(field_type) on `bytes`
Start(bytes, t, n) ==
  /\ pc \in {"idle", "done"}
  /\ input' = bytes /\ expect' = n /\ ttype' = t /\ index' = 0 /\ len' = 0 /\ pc' = "loop" /\ ret' = 0
  /\ stack' = IF t = S_STRUCT THEN << [t |-> <<S_STRUCT, S_STRUCT>>, n |-> 1] >> ELSE << >>

\* skip_stack_pop!
Pop(s) == LET top == s[Len(s)] IN
          IF top.n - 1 = 0 THEN SubSeq(s, 1, Len(s) - 1)
          ELSE [s EXCEPT ![Len(s)] = [top EXCEPT !.n = top.n - 1]]
\* the tail of the loop body: return when nothing is pending, else pick the next type by parity
After(s, idx, l) ==
  IF s = <<>> THEN /\ pc' = "done" /\ ret' = l /\ UNCHANGED ttype /\ stack' = s /\ index' = idx /\ len' = l
  ELSE LET top == s[Len(s)]
           tt == top.t[(top.n % 2) + 1]
       IN /\ ttype' = tt /\ pc' = "loop" /\ UNCHANGED ret /\ index' = idx /\ len' = l
          /\ stack' = IF tt # S_STRUCT THEN Pop(s) ELSE s
SkipFail == /\ pc' = "done" /\ ret' = -1 /\ UNCHANGED <<ttype, index, len, stack>>

Step ==
  /\ pc = "loop" /\ UNCHANGED <<input, expect>>
  /\ CASE Fixed(ttype) > 0 -> After(stack, index + Fixed(ttype), len + Fixed(ttype))
       [] ttype = S_BINARY -> LET n == U32(index) IN After(stack, index + 4 + n, len + 4 + n)
       [] ttype = S_STRUCT ->
            LET ft == At(index) IN
            IF ~Valid(ft) THEN SkipFail
            ELSE IF ft = S_STOP THEN After(Pop(stack), index + 1, len + 1)
            ELSE IF Fixed(ft) > 0
                 THEN \* fast path, `continue`: ttype stays Struct, the tail is not executed
                      /\ index' = index + 3 + Fixed(ft) /\ len' = len + 3 + Fixed(ft)
                      /\ UNCHANGED <<ttype, stack, pc, ret>>
                 ELSE After(Append(stack, [t |-> <<ft, ft>>, n |-> 1]), index + 3, len + 3)
       [] ttype \in {S_LIST, S_SET} ->
            LET et == At(index)  n == U32(index + 1) IN
            IF ~Valid(et) THEN SkipFail
            ELSE IF n = 0 THEN After(stack, index + 5, len + 5)
            ELSE IF Fixed(et) > 0 THEN After(stack, index + 5 + Fixed(et) * n, len + 5 + Fixed(et) * n)
            ELSE After(Append(stack, [t |-> <<et, et>>, n |-> n]), index + 5, len + 5)
       [] ttype = S_MAP ->
            LET kt == At(index)  vt == At(index + 1)  n == U32(index + 2) IN
            IF ~Valid(kt) \/ ~Valid(vt) THEN SkipFail
            ELSE IF n = 0 THEN After(stack, index + 6, len + 6)
            ELSE IF Fixed(kt) > 0 /\ Fixed(vt) > 0
                 THEN After(stack, index + 6 + (Fixed(kt) + Fixed(vt)) * n, len + 6 + (Fixed(kt) + Fixed(vt)) * n)
            ELSE After(Append(stack, [t |-> <<kt, vt>>, n |-> 2 * n]), index + 6, len + 6)
       [] OTHER -> SkipFail

\* --- properties on well-formed inputs (expect = length of the ideal encoding) -----------------
ExactOnDone == pc = "done" => (ret = expect /\ index = expect /\ len = expect /\ stack = <<>>)
NeverBehind == pc # "idle" => index <= expect
LenIsIndex == len = index
=============================================================================
