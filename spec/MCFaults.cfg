
