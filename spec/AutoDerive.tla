----------------------------- MODULE AutoDerive -----------------------------
(***************************************************************************)
(* As-built model of pilota-build's AutoDerivePlugin for                   *)
(* #[derive(Hash, Eq, Ord)] (plugin/mod.rs can_derive, lib.rs predicate)   *)
(* over a type graph of structs.                                           *)
(*                                                                         *)
(* A member is [to, via]: to a struct or a leaf ("f64", "i32"), via        *)
(*   direct  T / optional T          list   list<T>  (Vec<T>)              *)
(*   arc     pilota.rust_wrapper_arc bmap   map<i32, T>, rust_type btree   *)
(*   hmap    map<i32, T>  (AHashMap<i32, T>)                               *)
(* Ideal: a struct may derive Hash/Eq/Ord iff every member type implements *)
(* them: no f64 and no hash container anywhere it reaches.                 *)
(* As built:                                                               *)
(*  - predicate(member): a hash map / set or f64 anywhere inside the       *)
(*    member type says No.  Before fix 280118d it peeled Vec layers only   *)
(*    and did not look inside Arc or btree containers (K = "heo-old": a    *)
(*    double as btree map value still derived).                            *)
(*  - otherwise every struct the member types mention is decided           *)
(*    recursively; a struct met again while it is being decided is         *)
(*    "delayed" (decided by whoever closes the cycle); a struct that finds *)
(*    a No among its members turns the delayed structs NESTED in it to No. *)
(*  - "nested" asks the workspace type graph for a path.  EdgeVias is the  *)
(*    set of member kinds that graph has edges for: all of them since fix  *)
(*    0004637; before it, Arc and btree containers were missing.           *)
(*  - the decisions are cached across the top-level calls, which happen in *)
(*    some order of the items (Order).                                     *)
(***************************************************************************)
EXTENDS Integers, Sequences, FiniteSets, TLC

Leaves == {"f64", "i32"}
AllVias == {"direct", "list", "arc", "bmap", "hmap"}

\* ------------------------------------------------------------------ ideal
Nodes(g) == DOMAIN g
Targets(g, x) == {g[x][i].to : i \in DOMAIN g[x]} \ Leaves
RECURSIVE ReachSet(_, _, _)
ReachSet(g, frontier, seen) ==
  IF frontier = {} THEN seen
  ELSE LET nxt == (UNION {Targets(g, x) : x \in frontier}) \ seen IN ReachSet(g, nxt, seen \cup nxt)
Reach(g, x) == ReachSet(g, {x}, {x})                \* x and everything it mentions, transitively
\* K = "heo": #[derive(Hash, Eq, Ord)] -- f64 and hash containers implement none of them;
\* K = "po":  #[derive(PartialOrd)]     -- hash containers do not implement it (the second instance of the same plugin)
\* K = "heo-old": "heo" with the predicate as it was before it looked inside btree containers and Arc
BadMember(K, m) == (K \in {"heo", "heo-old"} /\ m.to = "f64") \/ m.via = "hmap"
IdealDerive(K, g, x) == \A y \in Reach(g, x) : \A i \in DOMAIN g[y] : ~BadMember(K, g[y][i])

\* --------------------------------------------------------------- as built
Pred(K, m) == IF m.via = "hmap" THEN "No"
              ELSE IF K = "heo" /\ m.to = "f64" THEN "No"
              ELSE IF K = "heo-old" /\ m.via \in {"direct", "list"} /\ m.to = "f64" THEN "No"
              ELSE "GoOn"
GraphTargets(g, x, EdgeVias) == {g[x][i].to : i \in {j \in DOMAIN g[x] : g[x][j].via \in EdgeVias}} \ Leaves
RECURSIVE GReach(_, _, _, _)
GReach(g, EdgeVias, frontier, seen) ==
  IF frontier = {} THEN seen
  ELSE LET nxt == (UNION {GraphTargets(g, x, EdgeVias) : x \in frontier}) \ seen IN GReach(g, EdgeVias, nxt, seen \cup nxt)
IsNested(g, EdgeVias, a, b) == b \in GReach(g, EdgeVias, {a}, {a})

\* st = [cache |-> [node -> "None" | "Yes" | "No" | "Delay"], delayed |-> set of nodes]
RECURSIVE CanDerive(_, _, _, _, _, _)
RECURSIVE Members(_, _, _, _, _, _, _, _)
\* decide the struct targets of members i.. of x one after the other; acc = the answers so far
Members(K, g, EV, x, i, visiting, st, acc) ==
  IF i > Len(g[x]) THEN [rs |-> acc, st |-> st]
  ELSE IF g[x][i].to \in Leaves THEN Members(K, g, EV, x, i + 1, visiting, st, acc)
  ELSE LET r == CanDerive(K, g, EV, g[x][i].to, visiting, st) IN Members(K, g, EV, x, i + 1, visiting, r.st, Append(acc, r.r))
CanDerive(K, g, EV, x, visiting, st) ==
  IF st.cache[x] # "None" THEN [r |-> st.cache[x], st |-> st]
  ELSE IF x \in visiting THEN [r |-> "Delay", st |-> st]
  ELSE IF \E i \in DOMAIN g[x] : Pred(K, g[x][i]) = "No"
       THEN [r |-> "No", st |-> [st EXCEPT !.cache[x] = "No"]]
  ELSE LET m == Members(K, g, EV, x, 1, visiting \cup {x}, st, <<>>)
           anyNo == \E k \in DOMAIN m.rs : m.rs[k] = "No"
           anyDelay == \E k \in DOMAIN m.rs : m.rs[k] = "Delay"
       IN IF anyNo THEN
             LET c2 == [n \in DOMAIN m.st.cache |-> IF n \in m.st.delayed /\ IsNested(g, EV, n, x) THEN "No" ELSE m.st.cache[n]]
             IN [r |-> "No", st |-> [cache |-> [c2 EXCEPT ![x] = "No"], delayed |-> m.st.delayed]]
          ELSE IF anyDelay THEN [r |-> "Delay", st |-> [cache |-> [m.st.cache EXCEPT ![x] = "Delay"], delayed |-> m.st.delayed \cup {x}]]
          ELSE [r |-> "Yes", st |-> [cache |-> [m.st.cache EXCEPT ![x] = "Yes"], delayed |-> m.st.delayed]]

RECURSIVE Run(_, _, _, _, _, _)
Run(K, g, EV, order, k, cache) ==
  IF k > Len(order) THEN cache
  ELSE Run(K, g, EV, order, k + 1, CanDerive(K, g, EV, order[k], {}, [cache |-> cache, delayed |-> {}]).st.cache)
AsBuilt(K, g, EV, order) == LET c == Run(K, g, EV, order, 1, [n \in Nodes(g) |-> "None"]) IN [n \in Nodes(g) |-> c[n] # "No"]

\* does the emitted code compile as far as these derives go?  a struct that derives must hold only members that implement them
MemberImpl(K, g, d, m) == ~BadMember(K, m) /\ (m.to \in Leaves \/ d[m.to])
Compiles(K, g, d) == \A x \in Nodes(g) : d[x] => \A i \in DOMAIN g[x] : MemberImpl(K, g, d, g[x][i])
\* the blind spot of the predicate before the fix: an f64 it could not see
Blind(g) == \E x \in Nodes(g) : \E i \in DOMAIN g[x] : g[x][i].to = "f64" /\ g[x][i].via \in {"arc", "bmap"}
=============================================================================
