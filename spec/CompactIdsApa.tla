---------------------------- MODULE CompactIdsApa ----------------------------
(* The field-id channel of the compact protocol as a lock-step transition system, typed for Apalache, with the field ids *)
(* left SYMBOLIC (any i16) and the struct nesting bounded by MaxDepth.  One call sequence drives three parties:          *)
(*   the writer        last id wl, stack ws   write_struct_begin / write_field_begin(id) / write_struct_end               *)
(*   the length pass   last id ll, stack ls   the *_len twins: they must take the same short/long decision (C04)          *)
(*   the reader        last id rl, stack rs   reads the header the writer produced and reconstructs the id (C01, C02)     *)
(* As built (compact.rs write_field_header since fix 4cdbf60): delta = id - last in i32; 0 < delta < 15 -> one byte       *)
(* carrying the delta, else the type byte followed by the zigzag id.  The reader adds a non-zero delta to its last id     *)
(* (wrapping i16 add) or takes the explicit id.  `last` is saved on a stack at struct begin, zeroed, and restored at      *)
(* struct end (fix 269909d for the readers).                                                                               *)
(* IndInv: the three parties hold the same last id and the same stack, all ids in the i16 range.  It is inductive and,    *)
(* with it, every FieldBegin reconstructs the id the writer was given and the length pass takes the writer's decision     *)
(* (the action asserts it as its enabling condition's consequence: see SameDecision / SameId below).                      *)
EXTENDS Integers, Sequences, Apalache

CONSTANTS
  \* @type: Int;
  MaxDepth

VARIABLES
  \* @type: Int;
  wl,
  \* @type: Seq(Int);
  ws,
  \* @type: Int;
  ll,
  \* @type: Seq(Int);
  ls,
  \* @type: Int;
  rl,
  \* @type: Seq(Int);
  rs,
  \* @type: Bool;
  sameDecision,
  \* @type: Bool;
  sameId

ConstInit == MaxDepth = 16

I16(x) == -32768 <= x /\ x <= 32767
Wrap16(x) == ((x + 32768) % 65536) - 32768
Short(id, last) == 0 < id - last /\ id - last < 15

Init == /\ wl = 0 /\ ll = 0 /\ rl = 0
        /\ ws = <<>> /\ ls = <<>> /\ rs = <<>>
        /\ sameDecision = TRUE /\ sameId = TRUE

StructBegin == /\ Len(ws) < MaxDepth
               /\ ws' = Append(ws, wl) /\ wl' = 0
               /\ ls' = Append(ls, ll) /\ ll' = 0
               /\ rs' = Append(rs, rl) /\ rl' = 0
               /\ UNCHANGED <<sameDecision, sameId>>
StructEnd == /\ Len(ws) > 0 /\ Len(ls) > 0 /\ Len(rs) > 0
             /\ wl' = ws[Len(ws)] /\ ws' = SubSeq(ws, 1, Len(ws) - 1)
             /\ ll' = ls[Len(ls)] /\ ls' = SubSeq(ls, 1, Len(ls) - 1)
             /\ rl' = rs[Len(rs)] /\ rs' = SubSeq(rs, 1, Len(rs) - 1)
             /\ UNCHANGED <<sameDecision, sameId>>
FieldBegin == \E id \in Int :
                /\ I16(id)
                /\ LET short == Short(id, wl)                     \* what the writer puts on the wire
                       delta == id - wl
                       nid == IF short THEN Wrap16(rl + delta) ELSE id     \* what the reader makes of it
                   IN /\ wl' = id /\ ll' = id /\ rl' = nid
                      /\ sameDecision' = (Short(id, ll) <=> short)
                      /\ sameId' = (nid = id)
                /\ UNCHANGED <<ws, ls, rs>>
Stutter == UNCHANGED <<wl, ws, ll, ls, rl, rs, sameDecision, sameId>>
Next == StructBegin \/ StructEnd \/ FieldBegin \/ Stutter

IndInv == /\ wl = ll /\ wl = rl /\ ws = ls /\ ws = rs
          /\ I16(wl)
          /\ Len(ws) <= MaxDepth
          /\ \A i \in 1..MaxDepth : i <= Len(ws) => I16(ws[i])
          /\ sameDecision /\ sameId
IndInit == /\ wl \in Int /\ ll \in Int /\ rl \in Int
           /\ ws = Gen(16) /\ ls = Gen(16) /\ rs = Gen(16)
           /\ sameDecision \in BOOLEAN /\ sameId \in BOOLEAN
           /\ IndInv
Props == sameDecision /\ sameId
=============================================================================
