------------------------------- MODULE EncMap -------------------------------
(***************************************************************************)
(* A map of an encoding: where every length, count, type code and field id *)
(* of the binary / compact encoding of a value tree sits (offset, width,   *)
(* kind).  Fault actions (overwrite a length with a boundary value, ...)   *)
(* are enumerated over these marks.                                        *)
(***************************************************************************)
EXTENDS ThriftUniverse, ThriftBinary, ThriftCompact

Mark(pos, w, kind) == [pos |-> pos, w |-> w, kind |-> kind]
Shift(ms, d) == [i \in 1..Len(ms) |-> [ms[i] EXCEPT !.pos = ms[i].pos + d]]

\* binary protocol: marks of the encoding of v placed at offset 0
RECURSIVE BinMarks(_)
RECURSIVE BinMarksSeq(_, _, _)
BinMarksSeq(vs, i, off) ==
  IF i > Len(vs) THEN <<>> ELSE Shift(BinMarks(vs[i]), off) \o BinMarksSeq(vs, i + 1, off + BinLen(vs[i]))
RECURSIVE BinMarksFields(_, _, _)
BinMarksFields(fs, i, off) ==
  IF i > Len(fs) THEN <<>>
  ELSE <<Mark(off, 1, "type"), Mark(off + 1, 2, "id")>> \o Shift(BinMarks(fs[i].x), off + 3)
         \o BinMarksFields(fs, i + 1, off + 3 + BinLen(fs[i].x))
RECURSIVE BinMarksKvs(_, _, _)
BinMarksKvs(kvs, i, off) ==
  IF i > Len(kvs) THEN <<>>
  ELSE Shift(BinMarks(kvs[i][1]), off) \o Shift(BinMarks(kvs[i][2]), off + BinLen(kvs[i][1]))
         \o BinMarksKvs(kvs, i + 1, off + BinLen(kvs[i][1]) + BinLen(kvs[i][2]))
BinMarks(v) ==
  CASE v.k \in {"binary", "string"} -> <<Mark(0, 4, "len")>>
    [] v.k = "struct" -> BinMarksFields(v.fs, 1, 0)
    [] v.k \in {"list", "set"} -> <<Mark(0, 1, "type"), Mark(1, 4, "count")>> \o BinMarksSeq(v.es, 1, 5)
    [] v.k = "map" -> <<Mark(0, 1, "type"), Mark(1, 1, "type"), Mark(2, 4, "count")>> \o BinMarksKvs(v.kvs, 1, 6)
    [] OTHER -> <<>>

\* compact protocol: lengths and counts are varints (width = their encoded width)
CLenOf(v) == Len(CEncF(v, "p15"))
RECURSIVE CMarks(_)
RECURSIVE CMarksSeq(_, _, _)
CMarksSeq(vs, i, off) ==
  IF i > Len(vs) THEN <<>> ELSE Shift(CMarks(vs[i]), off) \o CMarksSeq(vs, i + 1, off + CLenOf(vs[i]))
RECURSIVE CMarksFields(_, _, _, _)
CMarksFields(fs, i, off, last) ==
  IF i > Len(fs) THEN <<>>
  ELSE LET f == fs[i]
           isb == f.x.k = "bool"
           h == FieldHeader(IF isb THEN CT_TRUE ELSE ToCompact(TTypeOf(f.x)), f.id, last, "p15")
           body == IF isb THEN 0 ELSE CLenOf(f.x)
       IN <<Mark(off, 1, "type")>> \o (IF Len(h) > 1 THEN <<Mark(off + 1, Len(h) - 1, "id")>> ELSE <<>>)
            \o (IF isb THEN <<>> ELSE Shift(CMarks(f.x), off + Len(h)))
            \o CMarksFields(fs, i + 1, off + Len(h) + body, f.id)
RECURSIVE CMarksKvs(_, _, _)
CMarksKvs(kvs, i, off) ==
  IF i > Len(kvs) THEN <<>>
  ELSE Shift(CMarks(kvs[i][1]), off) \o Shift(CMarks(kvs[i][2]), off + CLenOf(kvs[i][1]))
         \o CMarksKvs(kvs, i + 1, off + CLenOf(kvs[i][1]) + CLenOf(kvs[i][2]))
CMarks(v) ==
  CASE v.k \in {"binary", "string"} -> <<Mark(0, Len(U32V(Len(v.v))), "len")>>
    [] v.k = "struct" -> CMarksFields(v.fs, 1, 0, 0)
    [] v.k \in {"list", "set"} ->
         LET h == CollHeader(v.et, Len(v.es)) IN
         <<Mark(0, 1, "type")>> \o (IF Len(h) > 1 THEN <<Mark(1, Len(h) - 1, "count")>> ELSE <<>>) \o CMarksSeq(v.es, 1, Len(h))
    [] v.k = "map" ->
         IF Len(v.kvs) = 0 THEN <<Mark(0, 1, "count")>>
         ELSE LET n == Len(U32V(Len(v.kvs))) IN
              <<Mark(0, n, "count"), Mark(n, 1, "type")>> \o CMarksKvs(v.kvs, 1, n + 1)
    [] OTHER -> <<>>

=============================================================================
