----------------------------- MODULE ThriftAsync -----------------------------
(***************************************************************************)
(* Asynchronous decoding against a delivery adversary (property C12).      *)
(*                                                                         *)
(* The decoder works through the request sequence `reads` (AsyncReads) of  *)
(* one message.  For each request of size n it polls the stream with a     *)
(* buffer of capacity n - got until the request is filled.  The stream is  *)
(* an adversary: a poll may answer Pending (any number of times, bounded   *)
(* by MaxPend in the model), deliver any k in 1..cap bytes that are        *)
(* available, or -- if the stream ends at eofAt < MsgLen -- signal end of   *)
(* file, which must surface as an error.                                   *)
(*   NoOverRead : the capacity offered never exceeds what the message      *)
(*                still owns, so no byte behind the message can be taken;  *)
(*   Exact      : on success exactly MsgLen bytes were taken;              *)
(*   EofIsError : a stream that ends early ends in "err", never "ok";      *)
(*   Terminates : every fair schedule ends (liveness, under WF).           *)
(* Init picks any message of Msgs and any end-of-stream position, so one   *)
(* run covers every message x every truncation x every delivery schedule.  *)
(* The same actions, with the poll results bound to logged values, form    *)
(* the trace specification AsyncTrace.                                     *)
(***************************************************************************)
EXTENDS Integers, Sequences

CONSTANTS Msgs,      \* set of request-size sequences (all sizes > 0)
          MaxPend    \* model bound on consecutive Pending answers

VARIABLES reads, \* the message: its request sequence
          eofAt, \* bytes the stream delivers before end of file
          req,   \* index of the current request (Len(reads) + 1 = all done)
          got,   \* bytes of the current request already filled
          taken, \* bytes taken from the stream
          pend,  \* consecutive Pending answers
          res    \* "run" | "ok" | "err"
vars == <<reads, eofAt, req, got, taken, pend, res>>

RECURSIVE SumTo(_, _)
SumTo(s, i) == IF i = 0 THEN 0 ELSE s[i] + SumTo(s, i - 1)
MsgLen == SumTo(reads, Len(reads))

Init == /\ reads \in Msgs /\ eofAt \in 0..SumTo(reads, Len(reads))
        /\ req = 1 /\ got = 0 /\ taken = 0 /\ pend = 0 /\ res = "run"

Cap == reads[req] - got
Avail == eofAt - taken

Finish == /\ res = "run" /\ req > Len(reads)
          /\ res' = "ok" /\ UNCHANGED <<reads, eofAt, req, got, taken, pend>>
Pending == /\ res = "run" /\ req <= Len(reads) /\ pend < MaxPend
           /\ pend' = pend + 1 /\ UNCHANGED <<reads, eofAt, req, got, taken, res>>
Deliver(k) == /\ res = "run" /\ req <= Len(reads) /\ k \in 1..Cap /\ k <= Avail
              /\ taken' = taken + k /\ pend' = 0 /\ UNCHANGED <<reads, eofAt, res>>
              /\ IF got + k = reads[req] THEN req' = req + 1 /\ got' = 0
                 ELSE got' = got + k /\ UNCHANGED req
Eof == /\ res = "run" /\ req <= Len(reads) /\ Avail = 0
       /\ res' = "err" /\ UNCHANGED <<reads, eofAt, req, got, taken, pend>>

Progress == Finish \/ Eof \/ \E k \in 1..16 : Deliver(k)
Next == Progress \/ Pending
Spec == Init /\ [][Next]_vars /\ WF_vars(Progress)

NoOverRead == res = "run" /\ req <= Len(reads) => Cap <= MsgLen - taken
Exact == res = "ok" => taken = MsgLen
EofIsError == res = "ok" => eofAt = MsgLen
ErrOnlyOnEof == res = "err" => eofAt < MsgLen /\ taken = eofAt
Terminates == <>(res # "run")
=============================================================================
