-------------------------------- MODULE MCPb --------------------------------
(***************************************************************************)
(* TLC as evaluator of the protobuf schema semantics (PbSchema): for every *)
(* message type of every schema of the corpus (VERIF_SCHEMAS) emit         *)
(*   canon   three representative values with their canonical encoding;    *)
(*   alt     the same value in every conforming alternative encoding       *)
(*           (fields reversed, repeated scalars packed / unpacked whatever *)
(*           the declaration says, implicit defaults sent explicitly, map  *)
(*           entries value-first, embedded messages split in two);         *)
(*   merge   two values a, b: Dec(a ++ b) and interleavings of their       *)
(*           records -- what "decode a then merge b" must yield (C18);     *)
(*   unknown the value with unknown fields of all wire types (varint,      *)
(*           fixed64, length-delimited, group, nested group, fixed32)      *)
(*           inserted at every record boundary and inside an embedded      *)
(*           message: must decode as if they were not there.               *)
(* Theorems checked on every emitted value: Dec(Enc(x)) = x for all        *)
(* alternatives; Dec of a record-wise concatenation is associative with    *)
(* the merge (Dec(a ++ b) computed once, from the bytes).                  *)
(***************************************************************************)
EXTENDS PbSchema, Json, IOUtils

Schemas == ndJsonDeserialize(IOEnv.VERIF_SCHEMAS)
Tier == IF "VERIF_TIER" \in DOMAIN IOEnv THEN IOEnv.VERIF_TIER ELSE "quick"

I32(n) == FromInt(n, 32)
I64(n) == SignExtend(FromInt(n, 32), 64)
ScalarVal(k, var) ==
  CASE k = "int32" -> Leaf(k, IF var = 1 THEN I32(-1) ELSE I32(300))
    [] k = "uint32" -> Leaf(k, IF var = 1 THEN <<65535, 65535>> ELSE I32(1))
    [] k = "sint32" -> Leaf(k, IF var = 1 THEN I32(-8193) ELSE I32(-2147483647 - 1))
    [] k = "enum" -> Leaf(k, IF var = 1 THEN I32(300) ELSE I32(1))
    [] k = "int64" -> Leaf(k, IF var = 1 THEN <<0, 0, 0, 32768>> ELSE I64(-2))
    [] k = "uint64" -> Leaf(k, IF var = 1 THEN <<65535, 65535, 65535, 65535>> ELSE I64(128))
    [] k = "sint64" -> Leaf(k, IF var = 1 THEN <<0, 0, 0, 32768>> ELSE I64(-65))
    [] k = "bool" -> Leaf(k, <<IF var = 1 THEN 1 ELSE 0>>)
    [] k = "fixed32" -> Leaf(k, IF var = 1 THEN <<772, 258>> ELSE I32(7))
    [] k = "sfixed32" -> Leaf(k, IF var = 1 THEN I32(-2) ELSE I32(16909060))
    [] k = "fixed64" -> Leaf(k, IF var = 1 THEN <<1800, 1286, 772, 258>> ELSE I64(9))
    [] k = "sfixed64" -> Leaf(k, IF var = 1 THEN <<0, 0, 0, 32768>> ELSE I64(-9))
    [] k = "float" -> Leaf(k, IF var = 1 THEN <<63, 192, 0, 0>> ELSE <<255, 128, 0, 0>>)
    [] k = "double" -> Leaf(k, IF var = 1 THEN <<63, 248, 0, 0, 0, 0, 0, 1>> ELSE <<192, 4, 0, 0, 0, 0, 0, 0>>)
    [] k = "string" -> Leaf(k, IF var = 1 THEN <<104, 105, 195, 169>> ELSE <<122>>)
    [] k = "bytes" -> Leaf(k, IF var = 1 THEN <<0, 255, 128, 7>> ELSE <<1>>)

\* the varint ladder: for every encoded width 1..10 the largest number of that width and the smallest of the next
\* (2^(7j) - 1, 2^(7j)), and the all-ones pattern; signed kinds take the same bit patterns, ZigZag kinds the numbers
\* whose ZigZag image they are.  Messages named Lad* carry it in their repeated fields.
BitAt(e, W) == [i \in 1..NLimbs(W) |-> IF i = (e \div 16) + 1 THEN Pow2(e % 16) ELSE 0]
LowOnes(e, W) == [i \in 1..NLimbs(W) |-> IF i - 1 < e \div 16 THEN 65535 ELSE IF i - 1 = e \div 16 THEN Pow2(e % 16) - 1 ELSE 0]
ULadder(W) == LET n == (W - 1) \div 7 IN
              [q \in 1..(2 * n) |-> IF q % 2 = 1 THEN LowOnes(7 * ((q + 1) \div 2), W) ELSE BitAt(7 * (q \div 2), W)] \o <<OnesInt(W)>>
LadKinds == {"uint64", "int64", "sint64", "uint32", "int32", "sint32"}
Ladder(k) == LET W == IF k \in {"uint64", "int64", "sint64"} THEN 64 ELSE 32
                 u == ULadder(W)
             IN [q \in 1..Len(u) |-> Leaf(k, IF k \in {"sint64", "sint32"} THEN UnZigZag(u[q]) ELSE u[q])]
BigStr(n) == [j \in 1..n |-> 97 + (j % 26)]
MaxDepth == 2
RECURSIVE ValM(_, _, _, _)
RECURSIVE ValT(_, _, _, _)
ValT(D, ty, var, depth) == IF SK(ty) = "msg" THEN ValM(D, ty.msg, var, depth) ELSE ScalarVal(SK(ty), var)
\* is the (non-message) value the implicit default?
IsDefault(x) == x.k # "msg" /\ x = DefaultLeaf(x.k)

ValM(D, name, var, depth) ==
  LET m == Msg(D, name)
      oneofs == {m.fields[i].oneof : i \in 1..Len(m.fields)} \ {""}
      \* the member of each oneof that is set (by var)
      chosen(g) == LET ms == SelectSeq(m.fields, LAMBDA f : f.oneof = g) IN ms[(var % Len(ms)) + 1].tag
      one(f, i) ==
        LET k == SK(f.ty)
            v == IF (var + i) % 2 = 0 THEN 2 ELSE 1
            deep == depth >= MaxDepth
            \* messages named Big* exist to carry payloads of 128 bytes and more (length prefixes of two bytes)
            big == SubSeq(name, 1, 3) = "Big"
        IN IF f.oneof # "" THEN
              (IF f.tag = chosen(f.oneof) /\ var > 0 /\ ~(k = "msg" /\ deep)
               THEN <<[tag |-> f.tag, x |-> ValT(D, f.ty, 1, depth + 1)]>> ELSE <<>>)
           ELSE IF SubSeq(name, 1, 3) = "Lad" /\ f.label = "repeated" /\ k \in LadKinds /\ var > 0 THEN
              LET ld == Ladder(k) IN
              <<[tag |-> f.tag, x |-> [k |-> "rep", es |-> IF var = 1 THEN ld ELSE [q \in 1..Len(ld) |-> ld[Len(ld) + 1 - q]]]]>>
           ELSE IF big /\ f.label = "repeated" /\ k # "msg" /\ var > 0 THEN
              \* a packed payload of 128 bytes and more: a two-byte length prefix
              <<[tag |-> f.tag, x |-> [k |-> "rep", es |-> [j \in 1..(IF var = 1 THEN 40 ELSE 17) |-> ScalarVal(k, 1 + (j % 2))]]]>>
           ELSE IF big /\ f.label = "repeated" /\ k = "msg" /\ var = 2 /\ ~deep THEN
              \* 130 small elements: the element COUNT crosses the one-byte varint boundary, each element stays short
              <<[tag |-> f.tag, x |-> [k |-> "rep", es |-> [j \in 1..130 |-> [k |-> "msg", fs |-> <<[tag |-> 3, x |-> Leaf("int32", I32(j))]>>]]]]>>
           ELSE IF big /\ k \in {"string", "bytes"} /\ f.label # "map" /\ var > 0 THEN
              <<[tag |-> f.tag, x |-> Leaf(k, BigStr(IF var = 1 THEN 200 ELSE 130))]>>
           ELSE IF f.label = "repeated" THEN
              (IF var = 0 \/ (k = "msg" /\ deep) THEN <<>>
               ELSE <<[tag |-> f.tag, x |-> [k |-> "rep", es |-> IF var = 1 THEN <<ValT(D, f.ty, 1, depth + 1), ValT(D, f.ty, 2, depth + 1)>>
                                                                     ELSE <<ValT(D, f.ty, 2, depth + 1)>>]]>>)
           ELSE IF f.label = "map" THEN
              (IF var = 0 \/ (SK(f.ty.map[2]) = "msg" /\ deep) THEN <<>>
               ELSE LET k1 == ScalarVal(f.ty.map[1], 1)  k2 == ScalarVal(f.ty.map[1], 2)
                        \* messages named Nz* exist to exercise one recorded finding: a map VALUE of negative zero
                        negz == SubSeq(name, 1, 2) = "Nz" /\ SK(f.ty.map[2]) \in {"double", "float"}
                        e1 == IF negz THEN <<k1, Leaf(SK(f.ty.map[2]), IF SK(f.ty.map[2]) = "double" THEN <<128, 0, 0, 0, 0, 0, 0, 0>> ELSE <<128, 0, 0, 0>>)>>
                              ELSE <<k1, ValT(D, f.ty.map[2], 2, depth + 1)>>
                        e2 == <<k2, ValT(D, f.ty.map[2], 1, depth + 1)>>
                        \* the second value repeats the FIRST key of the first value with a different value: in a ++ b the
                        \* later entry must replace the earlier one
                        e3 == <<k1, ValT(D, f.ty.map[2], 1, depth + 1)>>
                    IN <<[tag |-> f.tag, x |-> [k |-> "pmap", kvs |-> IF var = 1 THEN <<e1, e2>> ELSE <<e3>>]]>>)
           ELSE IF f.label = "required" THEN
              <<[tag |-> f.tag, x |-> ValT(D, f.ty, IF var = 0 THEN 2 ELSE v, depth + 1)]>>
           ELSE IF k = "msg" THEN
              (IF var = 0 \/ deep THEN <<>> ELSE <<[tag |-> f.tag, x |-> ValM(D, f.ty.msg, v, depth + 1)]>>)
           ELSE IF SubSeq(name, 1, 2) = "Nz" /\ k \in {"double", "float"} /\ var > 0 THEN
              \* negative zero is a value of its own (its bits are not the default's): it must survive
              <<[tag |-> f.tag, x |-> Leaf(k, IF k = "double" THEN <<128, 0, 0, 0, 0, 0, 0, 0>> ELSE <<128, 0, 0, 0>>)]>>
           ELSE LET x == ScalarVal(k, v) IN
                IF var = 0 \/ (var = 2 /\ i % 2 = 0) THEN <<>>
                ELSE IF f.label = "singular" /\ IsDefault(x) THEN <<>> ELSE <<[tag |-> f.tag, x |-> x]>>
  IN [k |-> "msg", fs |-> Concat2([i \in 1..Len(m.fields) |-> one(m.fields[i], i)])]

OptAlts == << [O0 EXCEPT !.rev = TRUE], [O0 EXCEPT !.pack = "all"], [O0 EXCEPT !.pack = "none"], [O0 EXCEPT !.dflt = TRUE],
              [O0 EXCEPT !.mapswap = TRUE], [O0 EXCEPT !.split = TRUE],
              [rev |-> TRUE, pack |-> "all", dflt |-> TRUE, mapswap |-> TRUE, split |-> TRUE, unk |-> <<>>] >>
OptNames == <<"reversed", "all-packed", "none-packed", "explicit-defaults", "map-value-first", "split-embedded", "everything">>

\* a conforming encoder may write any varint (key, length prefix, value) in a NON-MINIMAL form: the last byte gets its
\* continuation bit and a zero byte follows.  PadTop re-writes the top-level records of an encoding that way.
PadV(raw) == IF Len(raw) >= 10 THEN raw ELSE SubSeq(raw, 1, Len(raw) - 1) \o <<raw[Len(raw)] + 128, 0>>
Raw(b, pos, n) == [j \in 1..n |-> b[pos + j]]
RECURSIVE PadTop(_, _)
PadTop(b, pos) ==
  IF pos >= Len(b) THEN <<>>
  ELSE LET k == DecKey(b, pos)
           p == pos + k.n
           e == SkipRec(b, p, k.tag, k.wt, MaxGroupDepth)
           body == IF k.wt = WT_VARINT THEN PadV(Raw(b, p, e - p))
                   ELSE IF k.wt = WT_LEN THEN LET l == DecUVarint(b, p, 64) IN PadV(Raw(b, p, l.n)) \o Raw(b, p + l.n, e - p - l.n)
                   ELSE Raw(b, p, e - p)
       IN PadV(Raw(b, pos, k.n)) \o body \o PadTop(b, e)

\* a varint that does not fit its field's type is cast to it (the high bits are dropped; any non-zero bool is true):
\* WideTop re-writes the top-level records of 32-bit integer / enum fields with bit 32 set, and TRUE as 2
RECURSIVE WideTop(_, _, _)
WideTop(m, b, pos) ==
  IF pos >= Len(b) THEN <<>>
  ELSE LET k == DecKey(b, pos)
           p == pos + k.n
           e == SkipRec(b, p, k.tag, k.wt, MaxGroupDepth)
           fidx == {j \in 1..Len(m.fields) : m.fields[j].tag = k.tag}
           f == m.fields[CHOOSE j \in fidx : TRUE]
           u == DecUVarint(b, p, 64).val
           wide == k.wt = WT_VARINT /\ fidx # {} /\ f.label \in {"singular", "optional", "required"} /\ f.oneof = ""
           body == IF wide /\ SK(f.ty) \in {"uint32", "int32", "enum"} /\ u[3] < 65535 THEN UVarint([u EXCEPT ![3] = u[3] + 1])
                   ELSE IF wide /\ SK(f.ty) = "bool" /\ u = FromInt(1, 64) THEN <<2>>
                   ELSE Raw(b, p, e - p)
       IN Raw(b, pos, k.n) \o body \o WideTop(m, b, e)

\* unknown fields (tags no corpus message declares): one per wire type, plus a group holding a group
UTag == 19000
Unknowns == << KeyBytes(UTag, WT_VARINT) \o <<172, 2>>,
               KeyBytes(UTag + 1, WT_I64) \o <<1, 2, 3, 4, 5, 6, 7, 8>>,
               KeyBytes(UTag + 2, WT_LEN) \o <<3, 97, 98, 99>>,
               KeyBytes(UTag + 3, WT_SGROUP) \o KeyBytes(1, WT_VARINT) \o <<5>> \o KeyBytes(UTag + 3, WT_EGROUP),
               KeyBytes(UTag + 4, WT_SGROUP) \o KeyBytes(7, WT_SGROUP) \o KeyBytes(2, WT_LEN) \o <<1, 120>> \o KeyBytes(7, WT_EGROUP)
                                             \o KeyBytes(UTag + 4, WT_EGROUP),
               KeyBytes(UTag + 5, WT_I32) \o <<9, 9, 9, 9>> >>
UnkNames == <<"varint", "fixed64", "len", "group", "nested-group", "fixed32">>

\* the encoded records of a message, one byte string per top-level field occurrence
RecBytes(D, name, x) == [i \in 1..Len(x.fs) |-> EncField(D, FieldOf(Msg(D, name), x.fs[i].tag), x.fs[i].x, O0)]
InsertSeq(parts, pos, u) == Concat2(SubSeq(parts, 1, pos)) \o u \o Concat2(SubSeq(parts, pos + 1, Len(parts)))
Zip2(a, b) == Concat2([i \in 1..(Len(a) + Len(b)) |->
                               IF i % 2 = 1 THEN (IF (i + 1) \div 2 <= Len(a) THEN a[(i + 1) \div 2] ELSE <<>>)
                               ELSE (IF i \div 2 <= Len(b) THEN b[i \div 2] ELSE <<>>)])
                    \o Concat2(SubSeq(a, ((Len(a) + Len(b)) \div 2) + 2, Len(a)))   \* leftovers keep their order

Case(sid, ty, kind, how, inb, refb, a, b) ==
  [sid |-> sid, ty |-> ty, kind |-> kind, how |-> how, in |-> inb, ref |-> refb, a |-> a, b |-> b, val |-> <<>>]

CasesOfMsg(D, m) ==
  LET name == m.name
      vals == [v \in 1..3 |-> ValM(D, name, v - 1, 0)]
      encs == [v \in 1..3 |-> Enc(D, name, vals[v])]
      thm == \A v \in 1..3 : LET d == Dec(D, name, encs[v]) IN d.ok /\ d.v = Norm(D, name, vals[v].fs)
      \* canonical cases also carry the value itself (its top-level fields): the harness compares the numbers the
      \* emitted code holds after decoding (Debug rendering) with it -- a self-consistent wrong codec shows there
      canon == [v \in 1..3 |-> [Case(D.name, name, "canon", "v" \o ToString(v - 1), encs[v], encs[v], <<>>, <<>>) EXCEPT !.val = vals[v].fs]]
      alts == [i \in 1..Len(OptAlts) |->
                 LET e == EncMsg(D, name, vals[2], OptAlts[i]) IN
                 IF Assert(Dec(D, name, e).v = Norm(D, name, vals[2].fs), <<"alternative does not decode to the value", name, OptNames[i]>>)
                 THEN Case(D.name, name, "alt", OptNames[i], e, encs[2], <<>>, <<>>) ELSE Case(D.name, name, "bad", "", <<>>, <<>>, <<>>, <<>>)]
      padded == LET e == PadTop(encs[2], 0) IN
                IF Assert(Dec(D, name, e).v = Norm(D, name, vals[2].fs), <<"padded varints do not decode to the value", name>>)
                THEN <<Case(D.name, name, "alt", "padded-varints", e, encs[2], <<>>, <<>>)>> ELSE <<>>
      widened == LET e == WideTop(m, encs[2], 0) IN
                 IF e = encs[2] THEN <<>> ELSE <<Case(D.name, name, "alt", "overflowing-varints", e, encs[2], <<>>, <<>>)>>
      ra == RecBytes(D, name, vals[2])
      rb == RecBytes(D, name, vals[3])
      ab == encs[2] \o encs[3]
      ba == encs[3] \o encs[2]
      il == Zip2(ra, rb)
      \* "last wins" also when the last occurrence carries the DEFAULT: every scalar field present in a, sent again as zero / empty
      scal == SelectSeq(vals[2].fs, LAMBDA e : LET f == FieldOf(m, e.tag) IN f.label \in {"singular", "optional", "required"} /\ SK(f.ty) \notin {"msg", "map"})
      zb == Concat2([i \in 1..Len(scal) |-> LET f == FieldOf(m, scal[i].tag) IN KeyBytes(f.tag, WtOfTy(f.ty)) \o ScalarBytes(DefaultLeaf(SK(f.ty)))])
      merges == << Case(D.name, name, "merge", "a++zero", encs[2] \o zb, encs[2] \o zb, encs[2], zb),
                   Case(D.name, name, "merge", "a++b", ab, ab, encs[2], encs[3]),
                   Case(D.name, name, "merge", "b++a", ba, ba, encs[3], encs[2]),
                   Case(D.name, name, "merge", "a++a", encs[2] \o encs[2], encs[2] \o encs[2], encs[2], encs[2]),
                   Case(D.name, name, "merge", "interleaved", il, il, <<>>, <<>>) >>
      unk == Concat2([u \in 1..Len(Unknowns) |->
                [p \in 1..(Len(ra) + 1) |-> Case(D.name, name, "unknown", UnkNames[u], InsertSeq(ra, p - 1, Unknowns[u]), encs[2], <<>>, <<>>)]])
      \* unknown field inside the first embedded (singular) message of the value
      emb == {i \in 1..Len(vals[2].fs) : vals[2].fs[i].x.k = "msg"}
      nested == IF emb = {} THEN <<>>
                ELSE LET i == CHOOSE j \in emb : \A q \in emb : j <= q
                         f == FieldOf(m, vals[2].fs[i].tag)
                         inner == EncMsg(D, f.ty.msg, vals[2].fs[i].x, O0)
                         body(u) == Unknowns[u] \o inner \o Unknowns[u]
                         part(u) == IF IsGrp(f.ty) THEN KeyBytes(f.tag, WT_SGROUP) \o body(u) \o KeyBytes(f.tag, WT_EGROUP)
                                    ELSE KeyBytes(f.tag, WT_LEN) \o LenPrefix(Len(body(u))) \o body(u)
                     IN [u \in 1..Len(Unknowns) |->
                           Case(D.name, name, "unknown", "nested-" \o UnkNames[u], InsertSeq([ra EXCEPT ![i] = part(u)], 0, <<>>), encs[2], <<>>, <<>>)]
      \* unknown field inside every MAP ENTRY (an entry is a message of its own: numbers other than 1 and 2 are unknown to it),
      \* entries in either internal order
      hasmap == \E i \in 1..Len(vals[2].fs) : vals[2].fs[i].x.k = "pmap"
      inentry == IF ~hasmap THEN <<>>
                 ELSE [q \in 1..(2 * Len(Unknowns)) |->
                         LET u == ((q - 1) \div 2) + 1
                             o == [O0 EXCEPT !.unk = Unknowns[u], !.mapswap = (q % 2 = 0)]
                             e == EncMsg(D, name, vals[2], o)
                         IN IF Assert(Dec(D, name, e).v = Norm(D, name, vals[2].fs), <<"unknown field in a map entry changes the value", name, UnkNames[u]>>)
                            THEN Case(D.name, name, "unknown", "in-map-entry-" \o UnkNames[u], e, encs[2], <<>>, <<>>)
                            ELSE Case(D.name, name, "bad", "", <<>>, <<>>, <<>>, <<>>)]
  IN IF Assert(thm, <<"Dec(Enc(x)) # x", D.name, name>>) THEN canon \o alts \o padded \o widened \o merges \o unk \o nested \o inentry ELSE <<>>

RECURSIVE CasesOfSchema(_, _)
CasesOfSchema(D, i) == IF i > Len(D.messages) THEN <<>> ELSE CasesOfMsg(D, D.messages[i]) \o CasesOfSchema(D, i + 1)
RECURSIVE AllCases(_)
AllCases(k) == IF k > Len(Schemas) THEN <<>> ELSE CasesOfSchema(Schemas[k], 1) \o AllCases(k + 1)
ASSUME ndJsonSerialize(IOEnv.VERIF_OUT, AllCases(1))
=============================================================================
