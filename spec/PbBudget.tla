------------------------------ MODULE PbBudget ------------------------------
(***************************************************************************)
(* As-built model of the RECURSION BUDGET of pilota's protobuf decoder     *)
(* (DecodeContext.recurse_count in prost/encoding.rs; RECURSION_LIMIT =    *)
(* 100).  A context is a value: `enter_recursion` makes the child context  *)
(* with count - 1 (unchecked subtraction), `limit_reached` fails when the  *)
(* count is 0.  Which call sites check and which enter:                    *)
(*   embedded / repeated message   message::merge      check(c) enter(c),  *)
(*                                                     body at c - 1       *)
(*   map entry                     map merge           check(c) enter(c),  *)
(*                                 the entry's records are merged at c - 1 *)
(*                                 (a message VALUE is a message::merge    *)
(*                                 there: check(c-1) enter(c-1), body at   *)
(*                                 c - 2: a map level costs two units)     *)
(*   group field                   group::merge        check(c), then per  *)
(*                                 record of the group enter(c) and the    *)
(*                                 record is merged at c - 1               *)
(*   unknown field (any wire type) skip_field          check(c); a group   *)
(*                                 then, per inner record, enter(c) and    *)
(*                                 skips the record at c - 1               *)
(*   packed / scalar / string                          nothing             *)
(* Events(D, M, bytes, c) is the exact sequence of budget events           *)
(* <<"chk" | "ent", count>> a decode of `bytes` as message M produces,     *)
(* ending at the first failing check (count 0) or malformed record.        *)
(* Properties (checked on every judged trace and, for the design, by       *)
(* MCPbBudget): an `ent` never happens at count 0 (no underflow), and a    *)
(* nesting of more than RECURSION_LIMIT levels always fails.               *)
(* The real decoder's events (hook verif_budget) must equal Events.        *)
(***************************************************************************)
EXTENDS PbSchema

Chk(c) == <<"chk", c>>
Ent(c) == <<"ent", c>>
\* result: [ok (decoding may continue), ev (events so far)]
Go(ev) == [ok |-> TRUE, ev |-> ev]
Stop(ev) == [ok |-> FALSE, ev |-> ev]
Then(a, b) == IF a.ok THEN [ok |-> b.ok, ev |-> a.ev \o b.ev] ELSE a

RECURSIVE MsgEvents(_, _, _, _)
RECURSIVE RecsEvents(_, _, _, _, _)
RECURSIVE SkipEvents(_, _, _)
RECURSIVE SkipInner(_, _, _)

\* skipping an unknown record r (skip_field) with budget c
SkipEvents(r, tagOfGroup, c) ==
  \* skip_field consults the budget for EVERY unknown field, whatever its wire type (so an unknown scalar in a message
  \* nested exactly RECURSION_LIMIT levels deep is rejected, as built)
  IF c = 0 THEN Stop(<<Chk(0)>>)
  ELSE IF r.wt # WT_SGROUP THEN Go(<<Chk(c)>>)
  ELSE LET body == SubSeq(r.bytes, 1, Len(r.bytes) - Len(KeyBytes(r.tag, WT_EGROUP)))
           inner == ParseRecords(body)
       IN IF ~inner.ok THEN Stop(<<Chk(c)>>) ELSE Then(Go(<<Chk(c)>>), SkipInner(inner.recs, 1, c))
SkipInner(recs, i, c) ==
  IF i > Len(recs) THEN Go(<<>>)
  ELSE Then(Then(Go(<<Ent(c)>>), SkipEvents(recs[i], 0, c - 1)), SkipInner(recs, i + 1, c))

\* one known message-typed occurrence (embedded, repeated element, map value): message::merge
SubMsg(D, name, body, c) ==
  IF c = 0 THEN Stop(<<Chk(0)>>) ELSE Then(Go(<<Chk(c), Ent(c)>>), MsgEvents(D, name, body, c - 1))

\* the records of a map entry, merged at budget c (= the map field's budget - 1)
RECURSIVE EntryEvents(_, _, _, _, _)
EntryEvents(D, f, recs, i, c) ==
  IF i > Len(recs) THEN Go(<<>>)
  ELSE LET r == recs[i]
           vty == f.ty.map[2]
           one == IF r.tag = 2 /\ SK(vty) = "msg" /\ r.wt = WT_LEN THEN SubMsg(D, vty.msg, r.bytes, c)
                  ELSE IF r.tag \in {1, 2} THEN Go(<<>>)
                  ELSE SkipEvents(r, 0, c)
       IN Then(one, EntryEvents(D, f, recs, i + 1, c))

\* one record of message `name` at budget c
RecEvents(D, name, r, c) ==
  LET m == Msg(D, name)
      fidx == {j \in 1..Len(m.fields) : m.fields[j].tag = r.tag}
  IN IF fidx = {} THEN SkipEvents(r, 0, c)
     ELSE LET f == m.fields[CHOOSE j \in fidx : TRUE] IN
          IF f.label = "map" THEN
             (IF r.wt # WT_LEN THEN Stop(<<>>)
              ELSE IF c = 0 THEN Stop(<<Chk(0)>>)
              ELSE LET inner == ParseRecords(r.bytes) IN
                   IF ~inner.ok THEN Stop(<<Chk(c), Ent(c)>>)
                   ELSE Then(Go(<<Chk(c), Ent(c)>>), EntryEvents(D, f, inner.recs, 1, c - 1)))
          ELSE IF SK(f.ty) = "msg" /\ IsGrp(f.ty) THEN
             (IF r.wt # WT_SGROUP THEN Stop(<<>>)
              ELSE IF c = 0 THEN Stop(<<Chk(0)>>)
              ELSE LET inner == ParseRecords(GrpBody(f, r)) IN
                   IF ~inner.ok THEN Stop(<<Chk(c)>>)
                   ELSE Then(Go(<<Chk(c)>>), RecsEvents(D, f.ty.msg, inner.recs, 1, c)))
          ELSE IF SK(f.ty) = "msg" THEN
             (IF r.wt # WT_LEN THEN Stop(<<>>) ELSE SubMsg(D, f.ty.msg, r.bytes, c))
          ELSE Go(<<>>)

\* the records of a GROUP body: every record is merged under enter_recursion of the group's context
RecsEvents(D, name, recs, i, c) ==
  IF i > Len(recs) THEN Go(<<>>)
  ELSE Then(Then(Go(<<Ent(c)>>), RecEvents(D, name, recs[i], c - 1)), RecsEvents(D, name, recs, i + 1, c))

RECURSIVE MsgRecs(_, _, _, _, _)
MsgRecs(D, name, recs, i, c) ==
  IF i > Len(recs) THEN Go(<<>>) ELSE Then(RecEvents(D, name, recs[i], c), MsgRecs(D, name, recs, i + 1, c))
MsgEvents(D, name, bytes, c) ==
  LET p == ParseRecords(bytes) IN IF ~p.ok THEN Stop(<<>>) ELSE MsgRecs(D, name, p.recs, 1, c)

RecursionLimit == 100
Events(D, name, bytes) == MsgEvents(D, name, bytes, RecursionLimit)

\* no enter at count 0: the subtraction `recurse_count - 1` never wraps
NoUnderflow(ev) == \A i \in 1..Len(ev) : ev[i][1] = "ent" => ev[i][2] > 0
=============================================================================
