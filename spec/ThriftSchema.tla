---------------------------- MODULE ThriftSchema ----------------------------
(***************************************************************************)
(* Schema-directed semantics of Thrift IDL (ideal layer) -- the reference  *)
(* "encoder/decoder for the IDL" of properties C02, C08, C13 and C20.      *)
(*                                                                         *)
(* A schema S is the JSON form of an IDL document (lib/schemas.py):        *)
(*   S.defs : sequence of definitions [d |-> kind, name, ...]              *)
(*     struct / exception / union : fields = <<[id, req, ty, name,         *)
(*                                   default?]>>; req \in {"required",     *)
(*                                   "optional", "default"}                *)
(*     enum    : values = << <<name, number>> >>                           *)
(*     typedef : ty                                                        *)
(*     (the Args / Result types pilota synthesizes for service methods are *)
(*      ordinary struct / union definitions with synth = TRUE; a Result    *)
(*      union of a void method has voidok = TRUE)                          *)
(*   types  : [b |-> base] | [list |-> T] | [set |-> T] | [map |-> <<K,V>>]*)
(*            | [ref |-> Name]                                             *)
(* Values are wire-level value trees (ThriftTypes).                        *)
(*                                                                         *)
(*   Val(S, ty, var, depth)  a few representative values of a type         *)
(*   Expect(S, ty, w, keep)  what decoding wire tree w under reader type   *)
(*                           ty and re-encoding must yield: the TOLERANT   *)
(*                           READER of C08 -- unknown ids and fields whose *)
(*                           wire type differs from the declared one are   *)
(*                           ignored (kept, in order, behind the known     *)
(*                           fields when keep = TRUE); a missing optional  *)
(*                           field is absent or holds its IDL default; a   *)
(*                           missing required field without default, a     *)
(*                           union with no known variant (unless it is the *)
(*                           reply of a void method) or with more than one *)
(*                           is an error; enum numbers pass through.       *)
(*   DefaultVal(S, ty)       the value of the generated Default impl.      *)
(* All results are normalised with Erase (string = binary on the wire).    *)
(***************************************************************************)
EXTENDS ThriftUniverse

Has(r, f) == f \in DOMAIN r

DefIdx(S, name) == CHOOSE i \in 1..Len(S.defs) : S.defs[i].name = name
Def(S, name) == S.defs[DefIdx(S, name)]

RECURSIVE Res(_, _)
\* resolve typedefs
Res(S, ty) == IF Has(ty, "ref") /\ Def(S, ty.ref).d = "typedef" THEN Res(S, Def(S, ty.ref).ty) ELSE ty

\* kind of a resolved type: a base name, "list", "set", "map", or the kind of the referenced definition
KindOf(S, ty) ==
  LET t == Res(S, ty) IN
  IF Has(t, "b") THEN t.b
  ELSE IF Has(t, "list") THEN "list"
  ELSE IF Has(t, "set") THEN "set"
  ELSE IF Has(t, "map") THEN "map"
  ELSE Def(S, t.ref).d

WT(S, ty) ==
  LET k == KindOf(S, ty) IN
  CASE k = "bool" -> T_BOOL [] k = "i8" -> T_I8 [] k = "i16" -> T_I16 [] k = "i32" -> T_I32 [] k = "i64" -> T_I64
    [] k = "double" -> T_DOUBLE [] k \in {"string", "binary"} -> T_BINARY [] k = "uuid" -> T_UUID
    [] k = "enum" -> T_I32 [] k \in {"struct", "exception", "union"} -> T_STRUCT
    [] k = "list" -> T_LIST [] k = "set" -> T_SET [] k = "map" -> T_MAP [] k = "void" -> T_VOID

ElemTy(S, ty) == LET t == Res(S, ty) IN IF Has(t, "list") THEN t.list ELSE t.set
KeyTy(S, ty) == Res(S, ty).map[1]
ValTy(S, ty) == Res(S, ty).map[2]
DefOfTy(S, ty) == Def(S, Res(S, ty).ref)

(* ------------------------------------------------------------------ values *)
BaseVal(k, var) ==
  CASE k = "bool" -> Leaf("bool", <<IF var = 1 THEN 1 ELSE 0>>)
    [] k = "i8" -> Leaf("i8", <<IF var = 0 THEN 0 ELSE IF var = 1 THEN 128 ELSE 7>>)
    [] k = "i16" -> Leaf("i16", FromInt(IF var = 0 THEN 0 ELSE IF var = 1 THEN -8193 ELSE 300, 16))
    [] k = "i32" -> Leaf("i32", FromInt(IF var = 0 THEN 0 ELSE IF var = 1 THEN -2147483647 - 1 ELSE 16909060, 32))
    [] k = "i64" -> Leaf("i64", IF var = 0 THEN ZeroInt(64) ELSE IF var = 1 THEN <<1800, 1286, 772, 258>> ELSE Compl(Low1(63)))
    [] k = "double" -> Leaf("double", IF var = 0 THEN <<0,0,0,0,0,0,0,0>> ELSE IF var = 1 THEN <<63,248,0,0,0,0,0,1>> ELSE <<192,2,0,0,0,0,0,0>>)
    [] k = "string" -> Leaf("binary", IF var = 0 THEN <<>> ELSE IF var = 1 THEN StrOfLen(11) ELSE StrOfLen(2))
    [] k = "binary" -> Leaf("binary", IF var = 0 THEN <<>> ELSE IF var = 1 THEN BinOfLen(5) ELSE BinOfLen(130))
    [] k = "uuid" -> Leaf("uuid", IF var = 0 THEN Fill(16, 0) ELSE IF var = 1 THEN [i \in 1..16 |-> i] ELSE Fill(16, 255))

MaxValDepth == 3

RECURSIVE Val(_, _, _, _)
RECURSIVE FieldVals(_, _, _, _, _)
\* fields of a struct value: var 0 = required fields only; 1 = every field; 2 = every second optional
FieldVals(S, fs, i, var, depth) ==
  IF i > Len(fs) THEN <<>>
  ELSE LET f == fs[i]
           k == KindOf(S, f.ty)
           recursive == depth >= MaxValDepth
           present == IF f.req = "required" THEN TRUE
                      ELSE IF recursive THEN FALSE
                      ELSE IF var = 0 THEN FALSE ELSE IF var = 1 THEN TRUE ELSE i % 2 = 1
       IN (IF present THEN <<Fld(f.id, Val(S, f.ty, IF var = 0 THEN 0 ELSE IF (var + i) % 2 = 0 THEN 2 ELSE 1, depth + 1))>> ELSE <<>>)
            \o FieldVals(S, fs, i + 1, var, depth)

Val(S, ty, var, depth) ==
  LET k == KindOf(S, ty) IN
  CASE k \in {"bool", "i8", "i16", "i32", "i64", "double", "string", "binary", "uuid"} -> BaseVal(k, var)
    [] k = "void" -> Struct(<<>>)
    [] k = "enum" -> LET vs == DefOfTy(S, ty).values IN
                     Leaf("i32", FromInt(IF var = 0 THEN vs[1][2] ELSE IF var = 1 THEN vs[Len(vs)][2] ELSE 77, 32))
    [] k \in {"list", "set"} ->
         LET et == ElemTy(S, ty)
             n == IF var = 0 \/ depth >= MaxValDepth THEN 0 ELSE IF var = 1 THEN 2 ELSE 1
             es0 == [j \in 1..n |-> Val(S, et, IF j = 1 THEN 1 ELSE 2, depth + 1)]
             \* a set never holds the same element twice (elements coincide when the depth bound empties them)
             es == IF k = "set" /\ n = 2 /\ es0[1] = es0[2] THEN <<es0[1]>> ELSE es0
         IN [k |-> k, et |-> WT(S, et), es |-> es]
    [] k = "map" ->
         LET n == IF var = 0 \/ depth >= MaxValDepth THEN 0 ELSE IF var = 1 THEN 2 ELSE 1
             kvs0 == [j \in 1..n |-> <<Val(S, KeyTy(S, ty), IF j = 1 THEN 1 ELSE 2, depth + 1),
                                       Val(S, ValTy(S, ty), IF j = 1 THEN 2 ELSE 1, depth + 1)>>]
             kvs == IF n = 2 /\ kvs0[1][1] = kvs0[2][1] THEN <<kvs0[1]>> ELSE kvs0      \* keys are distinct
         IN Map(WT(S, KeyTy(S, ty)), WT(S, ValTy(S, ty)), kvs)
    [] k \in {"struct", "exception"} -> Struct(FieldVals(S, DefOfTy(S, ty).fields, 1, var, depth))
    [] k = "union" ->
         LET fs == DefOfTy(S, ty).fields
             f == fs[(var % Len(fs)) + 1]
         IN IF KindOf(S, f.ty) = "void" THEN Struct(<<>>)
            ELSE Struct(<<Fld(f.id, Val(S, f.ty, IF depth >= MaxValDepth THEN 0 ELSE 1, depth + 1))>>)

(* ------------------------------------------------------------------ default literals *)
\* A literal is pre-resolved by lib/schemas.py: ints carry 64-bit limbs `l`, strings their bytes,
\* doubles their IEEE bytes `bits`, enum members and constant references their value.
RECURSIVE DedupSeq(_, _)
DedupSeq(sq, acc) == IF sq = <<>> THEN acc
                     ELSE IF \E q \in 1..Len(acc) : acc[q] = Head(sq) THEN DedupSeq(Tail(sq), acc)
                     ELSE DedupSeq(Tail(sq), Append(acc, Head(sq)))
RECURSIVE Lit(_, _, _)
RECURSIVE LitFields(_, _, _, _)
RECURSIVE DefaultFields(_, _, _, _)
Lit(S, ty, l) ==
  LET k == KindOf(S, ty) IN
  CASE k = "bool" -> Leaf("bool", <<IF Has(l, "bool") THEN (IF l.bool THEN 1 ELSE 0) ELSE (IF l.l = ZeroInt(64) THEN 0 ELSE 1)>>)
    [] k = "i8" -> Leaf("i8", <<l.l[1] % 256>>)
    [] k = "i16" -> Leaf("i16", Truncate(l.l, 16))
    [] k \in {"i32", "enum"} -> Leaf("i32", Truncate(l.l, 32))
    [] k = "i64" -> Leaf("i64", l.l)
    [] k = "double" -> Leaf("double", l.bits)
    [] k \in {"string", "binary"} -> Leaf("binary", l.bytes)
    [] k = "list" -> [k |-> k, et |-> WT(S, ElemTy(S, ty)), es |-> [j \in 1..Len(l.list) |-> Lit(S, ElemTy(S, ty), l.list[j])]]
    \* a set literal that repeats an element denotes the set: each element once
    [] k = "set" -> [k |-> k, et |-> WT(S, ElemTy(S, ty)), es |-> DedupSeq([j \in 1..Len(l.list) |-> Lit(S, ElemTy(S, ty), l.list[j])], <<>>)]
    [] k = "map" -> Map(WT(S, KeyTy(S, ty)), WT(S, ValTy(S, ty)),
                        [j \in 1..Len(l.map) |-> <<Lit(S, KeyTy(S, ty), l.map[j][1]), Lit(S, ValTy(S, ty), l.map[j][2])>>])
    \* a struct literal {"field": value, ..}: the listed fields hold the given values, every other field what it holds in
    \* the struct's own default value (Apache semantics: construct the default object, then assign the listed members)
    [] k \in {"struct", "exception"} -> Struct(LitFields(S, DefOfTy(S, ty).fields, l.struct, 1))
LitFields(S, fs, kvs, i) ==
  IF i > Len(fs) THEN <<>>
  ELSE LET f == fs[i]
           hit == {j \in 1..Len(kvs) : kvs[j][1] = f.name}
       IN (IF hit # {} THEN <<Fld(f.id, Lit(S, f.ty, kvs[CHOOSE j \in hit : TRUE][2]))>>
           ELSE DefaultFields(S, <<f>>, 1, 0)) \o LitFields(S, fs, kvs, i + 1)

HasDefault(f) == Has(f, "default")

(* ------------------------------------------------------------------ the tolerant reader *)
XFail == [ok |-> FALSE, v |-> [k |-> "err"]]
XOk(v) == [ok |-> TRUE, v |-> v]

\* index of the LAST wire field that a reader field f accepts (same id, same wire type); 0 if none
RECURSIVE LastMatch(_, _, _, _)
LastMatch(wfs, id, wt, i) ==
  IF i = 0 THEN 0
  ELSE IF wfs[i].id = id /\ TTypeOf(wfs[i].x) = wt THEN i ELSE LastMatch(wfs, id, wt, i - 1)

\* wire fields no reader field accepts, in wire order (the "unknown fields")
Unknown(S, fs, wfs) ==
  SelectSeq(wfs, LAMBDA wf : ~\E j \in 1..Len(fs) : fs[j].id = wf.id /\ WT(S, fs[j].ty) = TTypeOf(wf.x))

\* retention applies to the types declared in the file; the argument / result types pilota
\* synthesizes for service methods never retain (parser/thrift: KeepUnknownFields(false))
KeepsUnknown(d, keep) == keep /\ ~(Has(d, "synth") /\ d.synth)

RECURSIVE Expect(_, _, _, _)
RECURSIVE ExpectFields(_, _, _, _, _, _)
RECURSIVE ExpectSeq(_, _, _, _, _, _)
RECURSIVE ExpectPairs(_, _, _, _, _, _, _)

ExpectSeq(S, ty, es, i, keep, acc) ==
  IF i > Len(es) THEN XOk(acc)
  ELSE LET r == Expect(S, ty, es[i], keep) IN
       IF ~r.ok THEN XFail ELSE ExpectSeq(S, ty, es, i + 1, keep, Append(acc, r.v))
ExpectPairs(S, kty, vty, kvs, i, keep, acc) ==
  IF i > Len(kvs) THEN XOk(acc)
  ELSE LET rk == Expect(S, kty, kvs[i][1], keep)  rv == Expect(S, vty, kvs[i][2], keep) IN
       IF ~rk.ok \/ ~rv.ok THEN XFail ELSE ExpectPairs(S, kty, vty, kvs, i + 1, keep, Append(acc, <<rk.v, rv.v>>))

\* known fields of a struct in declaration order
ExpectFields(S, fs, wfs, i, keep, acc) ==
  IF i > Len(fs) THEN XOk(acc)
  ELSE LET f == fs[i]
           m == LastMatch(wfs, f.id, WT(S, f.ty), Len(wfs))
       IN IF m > 0
          THEN LET r == Expect(S, f.ty, wfs[m].x, keep) IN
               IF ~r.ok THEN XFail ELSE ExpectFields(S, fs, wfs, i + 1, keep, Append(acc, Fld(f.id, r.v)))
          ELSE IF HasDefault(f) THEN ExpectFields(S, fs, wfs, i + 1, keep, Append(acc, Fld(f.id, Erase(Lit(S, f.ty, f.default)))))
          ELSE IF f.req = "required" THEN XFail
          ELSE ExpectFields(S, fs, wfs, i + 1, keep, acc)

Expect(S, ty, w, keep) ==
  LET k == KindOf(S, ty) IN
  CASE k \in {"bool", "i8", "i16", "i32", "i64", "double", "string", "binary", "uuid", "enum"} ->
         IF TTypeOf(w) = WT(S, ty) THEN XOk(Erase(w)) ELSE XFail
    [] k = "void" -> XOk(Struct(<<>>))
    [] k \in {"list", "set"} ->
         IF w.k # k THEN XFail
         ELSE LET r == ExpectSeq(S, ElemTy(S, ty), w.es, 1, keep, <<>>) IN
              IF ~r.ok THEN XFail ELSE XOk([k |-> k, et |-> WT(S, ElemTy(S, ty)), es |-> r.v])
    [] k = "map" ->
         IF w.k # "map" THEN XFail
         ELSE LET r == ExpectPairs(S, KeyTy(S, ty), ValTy(S, ty), w.kvs, 1, keep, <<>>) IN
              IF ~r.ok THEN XFail ELSE XOk(Map(WT(S, KeyTy(S, ty)), WT(S, ValTy(S, ty)), r.v))
    [] k \in {"struct", "exception"} ->
         IF w.k # "struct" THEN XFail
         ELSE LET d == DefOfTy(S, ty)
                  r == ExpectFields(S, d.fields, w.fs, 1, keep, <<>>)
                  unk == IF KeepsUnknown(d, keep) THEN [j \in 1..Len(Unknown(S, d.fields, w.fs)) |->
                                          Fld(Unknown(S, d.fields, w.fs)[j].id, Erase(Unknown(S, d.fields, w.fs)[j].x))]
                         ELSE <<>>
              IN IF ~r.ok THEN XFail ELSE XOk(Struct(r.v \o unk))
    [] k = "union" ->
         IF w.k # "struct" THEN XFail
         ELSE LET d == DefOfTy(S, ty)
                  fs == SelectSeq(d.fields, LAMBDA f : KindOf(S, f.ty) # "void")
                  known == SelectSeq(w.fs, LAMBDA wf : \E j \in 1..Len(fs) : fs[j].id = wf.id /\ WT(S, fs[j].ty) = TTypeOf(wf.x))
                  unk == Unknown(S, fs, w.fs)
                  voidok == Has(d, "voidok") /\ d.voidok
                  keepd == KeepsUnknown(d, keep)
              IN IF Len(known) > 1 THEN XFail
                 ELSE IF Len(known) = 1
                 THEN LET f == fs[CHOOSE j \in 1..Len(fs) : fs[j].id = known[1].id]
                          r == Expect(S, f.ty, known[1].x, keep)
                      IN IF ~r.ok THEN XFail
                         ELSE XOk(Struct(<<Fld(f.id, r.v)>> \o (IF keepd THEN [j \in 1..Len(unk) |-> Fld(unk[j].id, Erase(unk[j].x))] ELSE <<>>)))
                 ELSE IF keepd /\ Len(unk) = 1 THEN XOk(Struct(<<Fld(unk[1].id, Erase(unk[1].x))>>))
                 ELSE IF keepd /\ Len(unk) > 1 THEN XFail
                 ELSE IF voidok THEN XOk(Struct(<<>>))
                 ELSE XFail

(* ------------------------------------------------------------------ Default *)
\* the value of `T::default()` for a struct: IDL defaults where declared (present for optional
\* fields), otherwise the type's empty value for required fields and absence for optional ones
RECURSIVE ZeroVal(_, _, _)
ZeroVal(S, ty, depth) ==
  LET k == KindOf(S, ty) IN
  CASE k \in {"bool", "i8", "i16", "i32", "i64", "double", "string", "binary", "uuid"} -> BaseVal(k, 0)
    [] k = "enum" -> Leaf("i32", ZeroInt(32))
    [] k \in {"list", "set"} -> [k |-> k, et |-> WT(S, ElemTy(S, ty)), es |-> <<>>]
    [] k = "map" -> Map(WT(S, KeyTy(S, ty)), WT(S, ValTy(S, ty)), <<>>)
    [] k \in {"struct", "exception"} -> Struct(DefaultFields(S, DefOfTy(S, ty).fields, 1, depth + 1))
    [] k = "union" -> \* a union has no empty value: its Default is the first member holding that member's empty value
         LET f == DefOfTy(S, ty).fields[1] IN
         IF KindOf(S, f.ty) = "void" THEN Struct(<<>>) ELSE Struct(<<Fld(f.id, ZeroVal(S, f.ty, depth + 1))>>)
    [] OTHER -> Struct(<<>>)
DefaultFields(S, fs, i, depth) ==
  IF i > Len(fs) THEN <<>>
  ELSE LET f == fs[i] IN
       (IF HasDefault(f) THEN <<Fld(f.id, Erase(Lit(S, f.ty, f.default)))>>
        ELSE IF f.req = "required" THEN <<Fld(f.id, ZeroVal(S, f.ty, depth))>>
        ELSE <<>>) \o DefaultFields(S, fs, i + 1, depth)
DefaultVal(S, name) == Struct(DefaultFields(S, Def(S, name).fields, 1, 0))

\* does decoding the empty struct succeed for this definition?
EmptyDecodes(S, name) == Expect(S, [ref |-> name], Struct(<<>>), FALSE).ok

(* ------------------------------------------------------------------ comparison modulo set / map order *)
\* sets and maps are unordered: compare with their elements as TLA+ sets
RECURSIVE Canon(_, _)
Canon(v, compact) ==
  CASE v.k \in LeafKinds -> Erase(v)
    [] v.k = "struct" -> [k |-> "struct", fs |-> [i \in 1..Len(v.fs) |-> [id |-> v.fs[i].id, x |-> Canon(v.fs[i].x, compact)]]]
    [] v.k = "list" -> [k |-> "list", et |-> v.et, es |-> [i \in 1..Len(v.es) |-> Canon(v.es[i], compact)]]
    [] v.k = "set" -> [k |-> "set", et |-> v.et, n |-> Len(v.es), els |-> {Canon(v.es[i], compact) : i \in 1..Len(v.es)}]
    [] v.k = "map" -> IF compact /\ Len(v.kvs) = 0 THEN [k |-> "map", kt |-> 0, vt |-> 0, n |-> 0, els |-> {}]
                      ELSE [k |-> "map", kt |-> v.kt, vt |-> v.vt, n |-> Len(v.kvs),
                            els |-> {<<Canon(v.kvs[i][1], compact), Canon(v.kvs[i][2], compact)>> : i \in 1..Len(v.kvs)}]
\* struct fields compared as a set too (used where only the field SET matters: C13 full-schema reader)
RECURSIVE CanonU(_, _)
CanonU(v, compact) ==
  CASE v.k \in LeafKinds -> Erase(v)
    [] v.k = "struct" -> [k |-> "struct", n |-> Len(v.fs), fset |-> {[id |-> v.fs[i].id, x |-> CanonU(v.fs[i].x, compact)] : i \in 1..Len(v.fs)}]
    [] v.k = "list" -> [k |-> "list", et |-> v.et, es |-> [i \in 1..Len(v.es) |-> CanonU(v.es[i], compact)]]
    [] v.k = "set" -> [k |-> "set", et |-> v.et, n |-> Len(v.es), els |-> {CanonU(v.es[i], compact) : i \in 1..Len(v.es)}]
    [] v.k = "map" -> IF compact /\ Len(v.kvs) = 0 THEN [k |-> "map", kt |-> 0, vt |-> 0, n |-> 0, els |-> {}]
                      ELSE [k |-> "map", kt |-> v.kt, vt |-> v.vt, n |-> Len(v.kvs),
                            els |-> {<<CanonU(v.kvs[i][1], compact), CanonU(v.kvs[i][2], compact)>> : i \in 1..Len(v.kvs)}]
=============================================================================
