----------------------------- MODULE UnsafeProto -----------------------------
(***************************************************************************)
(* As-built model of the cursor accounting of the unchecked binary codec   *)
(* (binary_unsafe.rs).  The bytes are those of the binary protocol; what   *)
(* is modelled here is where they go.                                      *)
(*                                                                         *)
(* writer  u = [index, buflen]                                             *)
(*   `buf` is a raw slice of length buflen; every write stores at          *)
(*   buf[index..] WITHOUT bounds checks and bumps index.                   *)
(*   &mut BytesMut  : buf aliases the pre-sized buffer from offset 0 and   *)
(*                    never moves.                                         *)
(*   &mut LinkedBytes: buf is the spare capacity; write_field_begin and    *)
(*                    write_message_begin end with advance_mut(index)      *)
(*                    (commit: the slice shrinks by index, index := 0); a  *)
(*                    zero-copy insert commits, appends the payload as its *)
(*                    own node and re-derives buf from the spare capacity. *)
(* reader  c = [index, translen, buflen]                                   *)
(*   fixed-width reads bump index; the zero-copy reads (read_bytes,        *)
(*   read_faststr, read_bytes_vec) first advance(index) (drop the prefix   *)
(*   from the Bytes, index := 0), split the payload off, re-derive buf.    *)
(* Safety contract (C11): InBounds -- index + n <= buflen before any       *)
(* store/load of n bytes.                                                  *)
(***************************************************************************)
EXTENDS Integers, Sequences

ZcThreshold == 4096

\* --- writer: n = number of bytes the op stores through `buf`
UWStore(u, n) == [ok |-> u.index + n <= u.buflen, u |-> [u EXCEPT !.index = u.index + n]]
\* LinkedBytes: commit after the store
UWStoreCommit(u, n) ==
  [ok |-> u.index + n <= u.buflen, u |-> [index |-> 0, buflen |-> u.buflen - (u.index + n)]]
\* LinkedBytes zero-copy: 4-byte length stored, committed, payload attached as a node (not stored)
UWZeroCopy(u) ==
  [ok |-> u.index + 4 <= u.buflen, u |-> [index |-> 0, buflen |-> u.buflen - (u.index + 4)]]

\* does this w_binary call take the zero-copy path?
TakesZc(buf, api, len) == buf = "linkedzc" /\ api \in {"bytes", "faststr"} /\ len >= ZcThreshold
\* AS BUILT, compact protocol only: write_faststr compares the wrong way round (compact.rs `s.len() <= ZERO_COPY_THRESHOLD`):
\* every string UP TO the threshold is linked in as its own node and longer ones are copied.  The bytes on the wire are
\* unaffected (no listed property is broken); the deviation is named here so that the accounting can be validated as built.
TakesZcCompact(buf, api, len) ==
  buf = "linkedzc" /\ ((api = "bytes" /\ len >= ZcThreshold) \/ (api = "faststr" /\ len <= ZcThreshold))

\* --- reader
URLoad(c, n) == [ok |-> c.index + n <= c.buflen, c |-> [c EXCEPT !.index = c.index + n]]
\* read_bytes / read_faststr / read_bytes_vec: 4-byte length then advance + split_to(len)
URSplit(c, len) ==
  LET tl == c.translen - (c.index + 4) - len IN
  [ok |-> c.index + 4 <= c.buflen /\ tl >= 0, c |-> [index |-> 0, translen |-> tl, buflen |-> tl]]
\* read_string: copies, no advance
URString(c, len) == URLoad(c, 4 + len)
UConsumed(total, c) == (total - c.translen) + c.index
=============================================================================
