
