--------------------------- MODULE MCThriftAsync ---------------------------
(* Model constants for ThriftAsync: the request sequences of a slice of the *)
(* value-tree universe under the binary and the compact protocol.          *)
EXTENDS ThriftAsync, ThriftUniverse, AsyncReads, ThriftBinary, ThriftCompact, TLC, IOUtils
Tier == IF "VERIF_TIER" \in DOMAIN IOEnv THEN IOEnv.VERIF_TIER ELSE "quick"
MCTrees == IF Tier = "thorough"
           THEN F6 \cup {t \in F5 : BinLen(t) <= 40} \cup RepLeaves \cup {RepStruct, RepList, RepSet, RepMap}
           ELSE RepLeaves \cup {RepStruct, RepList, RepSet, RepMap, Inner(1)}
MCMsgs == {BinReads(v) : v \in MCTrees} \cup {CReads(v) : v \in MCTrees}
\* theorem of the as-built read model: the requests add up to the ideal encoding, for every tree of the universe
ASSUME \A i \in 1..Len(QuickTrees) :
          LET v == QuickTrees[i] IN
          /\ Sum(BinReads(v), 1) = BinLen(v)
          /\ Sum(CReads(v), 1) = Len(CEnc(v))
====
