
