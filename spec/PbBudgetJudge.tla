--------------------------- MODULE PbBudgetJudge ---------------------------
(* The specification as judge of the recursion-budget events the real decoder emitted (hook verif_budget): each record of *)
(* VERIF_TRACE is {id, sid, ty, in, ev: <<<<"chk"|"ent", count>>>>, ok: 0|1}.  A record is GOOD iff                       *)
(*   - the decoder's events are a prefix-exact match of the model's: equal when the model runs to the end or stops at a   *)
(*     failing check; when the model stops at a malformed record the decoder's events must extend the model's             *)
(*     (what the decoder does behind a malformed record is not the budget's business);                                    *)
(*   - no event enters at count 0.                                                                                         *)
EXTENDS PbBudget, Json, IOUtils
Schemas == ndJsonDeserialize(IOEnv.VERIF_SCHEMAS)
Trc == ndJsonDeserialize(IOEnv.VERIF_TRACE)
SchemaOf(sid) == Schemas[CHOOSE i \in 1..Len(Schemas) : Schemas[i].name = sid]
IsPrefixOf(a, b) == Len(a) <= Len(b) /\ \A i \in 1..Len(a) : a[i] = b[i]
Good(e) == LET m == Events(SchemaOf(e.sid), e.ty, e.in)
               got == [i \in 1..Len(e.ev) |-> <<e.ev[i][1], e.ev[i][2]>>]
               stoppedAtCheck == ~m.ok /\ Len(m.ev) > 0 /\ m.ev[Len(m.ev)] = <<"chk", 0>>
           IN /\ NoUnderflow(got)
              /\ IF m.ok \/ stoppedAtCheck THEN got = m.ev ELSE IsPrefixOf(m.ev, got)
              /\ (stoppedAtCheck => e.ok = 0)
ASSUME ndJsonSerialize(IOEnv.VERIF_OUT, SetToSeq({[id |-> Trc[i].id] : i \in {j \in 1..Len(Trc) : ~Good(Trc[j])}}))
=============================================================================
