------------------------------- MODULE MCGen -------------------------------
(***************************************************************************)
(* TLC as evaluator of the schema semantics: for every schema of the       *)
(* corpus (VERIF_SCHEMAS, NDJSON) and every struct / exception / union     *)
(* definition, emit cases                                                  *)
(*   base   (writer = reader): three representative values;                *)
(*   evo    (schema evolution, C08/C13): the value as written under a      *)
(*          DIFFERENT schema -- unknown fields of every wire type inserted *)
(*          at every position, a known field removed, retyped (different   *)
(*          wire type), fields reordered, a duplicated field, nested       *)
(*          structs evolved likewise;                                      *)
(*   dflt   the empty struct and the expected Default value (C20).         *)
(* Each case carries the input in all three protocols and what the         *)
(* tolerant reader must make of it, with and without retention.            *)
(***************************************************************************)
EXTENDS ThriftSchema, EncMap, TLC, Json, IOUtils

Schemas == ndJsonDeserialize(IOEnv.VERIF_SCHEMAS)
Tier == IF "VERIF_TIER" \in DOMAIN IOEnv THEN IOEnv.VERIF_TIER ELSE "quick"

IsMsgDef(d) == d.d \in {"struct", "exception", "union"}

\* one unknown field per wire type (ids no corpus schema uses)
UnknownOf(t) == Fld(IF t = T_BOOL THEN 4000 ELSE 4000 + t, RepAny(t))
UnkTypes == IF Tier = "thorough" THEN ElemTypes ELSE {T_BOOL, T_I32, T_BINARY, T_STRUCT, T_LIST, T_MAP, T_UUID, T_DOUBLE}
\* further unknown-field shapes: maps whose keys and values are fixed-size with DIFFERENT widths, fixed-size elements,
\* empty containers, containers of containers, a struct holding such a map (the skippers have fast paths for these)
I32L(n) == Leaf("i32", FromInt(n, 32))
UnkShapes == << Map(T_I32, T_I64, << <<I32L(1), Leaf("i64", P2(34))>>, <<I32L(2), Leaf("i64", ZeroInt(64))>>, <<I32L(3), Leaf("i64", P2(41))>> >>),
                Map(T_I64, T_BOOL, << <<Leaf("i64", P2(34)), Leaf("bool", <<1>>)>>, <<Leaf("i64", P2(41)), Leaf("bool", <<0>>)>> >>),
                Map(T_UUID, T_I8, << <<Leaf("uuid", Fill(16, 7)), Leaf("i8", <<1>>)>> >>),
                Map(T_BINARY, T_I32, << <<Leaf("binary", <<97>>), I32L(5)>>, <<Leaf("binary", <<>>), I32L(6)>> >>),
                Map(T_I32, T_STRUCT, << <<I32L(1), RepStruct>>, <<I32L(2), EmptyStruct>> >>),
                Map(T_I16, T_I16, <<>>), List(T_STRUCT, <<>>), List(T_DOUBLE, <<Leaf("double", <<63,248,0,0,0,0,0,0>>), Leaf("double", <<0,0,0,0,0,0,0,1>>)>>),
                SetV(T_UUID, <<Leaf("uuid", Fill(16, 1)), Leaf("uuid", Fill(16, 2))>>), List(T_LIST, <<List(T_I8, <<Leaf("i8", <<1>>)>>), List(T_I8, <<>>)>>),
                Struct(<<Fld(1, Map(T_I8, T_I64, << <<Leaf("i8", <<1>>), Leaf("i64", P2(34))>> >>)), Fld(2, Leaf("bool", <<1>>))>>),
                \* sets and lists of every fixed width with several elements, a set of structs (no fast path), a struct of such sets
                SetV(T_I32, <<I32L(1), I32L(70000), I32L(3)>>), SetV(T_DOUBLE, <<Leaf("double", <<63,248,0,0,0,0,0,0>>), Leaf("double", <<64,0,0,0,0,0,0,0>>)>>),
                SetV(T_I8, <<Leaf("i8", <<1>>), Leaf("i8", <<2>>), Leaf("i8", <<3>>), Leaf("i8", <<4>>)>>),
                List(T_I16, <<Leaf("i16", FromInt(5, 16)), Leaf("i16", FromInt(-5, 16)), Leaf("i16", FromInt(300, 16))>>),
                SetV(T_STRUCT, <<RepStruct, EmptyStruct>>),
                Struct(<<Fld(1, SetV(T_I64, <<Leaf("i64", P2(34)), Leaf("i64", P2(41))>>)), Fld(2, SetV(T_BINARY, <<Leaf("binary", <<97, 98>>), Leaf("binary", <<>>)>>))>>) >>

InsAt(s, i, e) == SubSeq(s, 1, i) \o <<e>> \o SubSeq(s, i + 1, Len(s))
RemAt(s, i) == SubSeq(s, 1, i - 1) \o SubSeq(s, i + 1, Len(s))
Rvs(s) == [i \in 1..Len(s) |-> s[Len(s) + 1 - i]]
\* a value of a different wire type than x
Retyped(x) == IF TTypeOf(x) = T_I64 THEN Leaf("binary", <<1, 2, 3>>) ELSE Leaf("i64", <<1, 2, 3, 4>>)

SeqOfSet(S) == SetToSeq(S)
\* unknown fields whose id lies BETWEEN known ids (so that the field behind them is delta-encoded on the compact protocol,
\* which makes the reader's field-id context after the skip observable): id = (id of the next written field) - 1 where free
BetweenTypes == {T_STRUCT, T_BOOL, T_LIST, T_MAP}
Between(w, declared) ==
  LET n == Len(w.fs)
      ok(p) == LET cand == w.fs[p].id - 1 IN cand >= 1 /\ cand \notin declared /\ (p = 1 \/ cand > w.fs[p - 1].id)
  IN SeqOfSet({[how |-> "add-between", w |-> Struct(InsAt(w.fs, p - 1, Fld(w.fs[p].id - 1, RepAny(t))))] : p \in {q \in 1..n : ok(q)}, t \in BetweenTypes})

\* a retained chunk above the zero-copy threshold (4096), behind and in front of known fields: the writers link such a
\* chunk into the output instead of copying it.  Only for the definitions every schema shares (the cases are 5 KB each).
BigDefs == {"Leaf1", "Rec1", "Ex1", "MutA"}
BigSeq(w, name) ==
  IF name \notin BigDefs THEN <<>>
  ELSE LET n == Len(w.fs)
           big == Fld(4200, Leaf("binary", BinOfLen(5000)))
       IN <<[how |-> "add-big", w |-> Struct(InsAt(w.fs, IF n >= 1 THEN 1 ELSE 0, big))],
            [how |-> "add-big", w |-> Struct(InsAt(InsAt(w.fs, n, big), 0, Fld(4201, Leaf("binary", BinOfLen(4096)))))]>>

\* enums are OPEN: a number no member has must travel through a field of enum type, a list of enums and a map keyed by enums
EnumSeq(S, d, w) ==
  LET n == Len(w.fs)
      odd == Leaf("i32", FromInt(4242, 32))
      declTy(id) == LET idx == {q \in 1..Len(d.fields) : d.fields[q].id = id} IN d.fields[CHOOSE q \in idx : TRUE].ty
      isDecl(id) == \E q \in 1..Len(d.fields) : d.fields[q].id = id
      enumField(i) == isDecl(w.fs[i].id) /\ KindOf(S, declTy(w.fs[i].id)) = "enum" /\ w.fs[i].x.k = "i32"
      enumList(i) == isDecl(w.fs[i].id) /\ KindOf(S, declTy(w.fs[i].id)) = "list" /\ w.fs[i].x.k = "list" /\ w.fs[i].x.et = T_I32
                     /\ KindOf(S, ElemTy(S, declTy(w.fs[i].id))) = "enum" /\ Len(w.fs[i].x.es) > 0
  IN SeqOfSet({[how |-> "enum-unknown", w |-> Struct([w.fs EXCEPT ![i] = Fld(w.fs[i].id, odd)])] : i \in {q \in 1..n : enumField(q)}})
     \o SeqOfSet({[how |-> "enum-unknown", w |-> Struct([w.fs EXCEPT ![i] = Fld(w.fs[i].id, [w.fs[i].x EXCEPT !.es = [@ EXCEPT ![1] = odd]])])]
                    : i \in {q \in 1..n : enumList(q)}})

EvoSeq(w, declared) ==
  LET n == Len(w.fs) IN
  Between(w, declared) \o
  SeqOfSet({[how |-> "add-first", w |-> Struct(InsAt(w.fs, 0, UnknownOf(t)))] : t \in UnkTypes})
  \o SeqOfSet({[how |-> "add-last", w |-> Struct(InsAt(w.fs, n, UnknownOf(t)))] : t \in UnkTypes})
  \o (IF n >= 2 THEN SeqOfSet({[how |-> "add-middle", w |-> Struct(InsAt(w.fs, 1, UnknownOf(t)))] : t \in UnkTypes}) ELSE <<>>)
  \o SeqOfSet({[how |-> "remove", w |-> Struct(RemAt(w.fs, i))] : i \in 1..n})
  \o SeqOfSet({[how |-> "retype", w |-> Struct([w.fs EXCEPT ![i] = Fld(w.fs[i].id, Retyped(w.fs[i].x))])] : i \in 1..n})
  \o (IF n >= 2 THEN <<[how |-> "reorder", w |-> Struct(Rvs(w.fs))]>> ELSE <<>>)
  \o [i \in 1..Len(UnkShapes) |-> [how |-> "add-shape", w |-> Struct(InsAt(w.fs, IF i % 2 = 0 THEN 0 ELSE n, Fld(4100 + i, UnkShapes[i])))]]
  \o (IF n >= 1 THEN <<[how |-> "add-two", w |-> Struct(<<UnknownOf(T_I32)>> \o w.fs \o <<UnknownOf(T_BINARY), UnknownOf(T_STRUCT)>>)]>> ELSE <<>>)
  \* evolve a nested struct field (first field whose value is a struct)
  \o (LET idx == {i \in 1..n : w.fs[i].x.k = "struct"} IN
      IF idx = {} THEN <<>>
      ELSE LET i == CHOOSE j \in idx : \A k \in idx : j <= k
               inner == w.fs[i].x
           IN <<[how |-> "nested-add", w |-> Struct([w.fs EXCEPT ![i] = Fld(w.fs[i].id, Struct(InsAt(inner.fs, Len(inner.fs), UnknownOf(T_BINARY))))])],
                [how |-> "nested-add-first", w |-> Struct([w.fs EXCEPT ![i] = Fld(w.fs[i].id, Struct(InsAt(inner.fs, 0, UnknownOf(T_I32))))])]>>)
  \* evolve the struct elements of a list field
  \o (LET idx == {i \in 1..n : w.fs[i].x.k = "list" /\ w.fs[i].x.et = T_STRUCT /\ Len(w.fs[i].x.es) > 0} IN
      IF idx = {} THEN <<>>
      ELSE LET i == CHOOSE j \in idx : \A k \in idx : j <= k
               l == w.fs[i].x
           IN <<[how |-> "elem-add", w |-> Struct([w.fs EXCEPT ![i] =
                    Fld(w.fs[i].id, [l EXCEPT !.es = [j \in 1..Len(l.es) |-> Struct(InsAt(l.es[j].fs, Len(l.es[j].fs), UnknownOf(T_I32)))]])])]>>)

\* unknown fields inside the struct VALUES of a map field and inside the struct elements of a set field
MapValSeq(w) ==
  LET n == Len(w.fs)
      midx == {i \in 1..n : w.fs[i].x.k = "map" /\ w.fs[i].x.vt = T_STRUCT /\ Len(w.fs[i].x.kvs) > 0}
      sidx == {i \in 1..n : w.fs[i].x.k = "set" /\ w.fs[i].x.et = T_STRUCT /\ Len(w.fs[i].x.es) > 0}
      grow(v) == Struct(InsAt(v.fs, Len(v.fs), UnknownOf(T_BINARY)))
  IN (IF midx = {} THEN <<>>
      ELSE LET i == CHOOSE j \in midx : \A q \in midx : j <= q
               mv == w.fs[i].x
           IN <<[how |-> "mapval-add", w |-> Struct([w.fs EXCEPT ![i] =
                    Fld(w.fs[i].id, [mv EXCEPT !.kvs = [j \in 1..Len(mv.kvs) |-> <<mv.kvs[j][1], grow(mv.kvs[j][2])>>]])])]>>)
     \o (IF sidx = {} THEN <<>>
         ELSE LET i == CHOOSE j \in sidx : \A q \in sidx : j <= q
                  sv == w.fs[i].x
              IN <<[how |-> "setelem-add", w |-> Struct([w.fs EXCEPT ![i] =
                       Fld(w.fs[i].id, [sv EXCEPT !.es = [j \in 1..Len(sv.es) |-> grow(sv.es[j])]])])]>>)

Case(sid, S, d, kind, how, w) ==
  LET ty == [ref |-> d.name]
      e  == Expect(S, ty, w, FALSE)
      ek == Expect(S, ty, w, TRUE)
  IN [sid |-> sid, ty |-> d.name, kind |-> kind, how |-> how, w |-> w,
      bin |-> BinEnc(w, FALSE), binle |-> BinEnc(w, TRUE), cs |-> CEnc(w),
      ok |-> IF e.ok THEN 1 ELSE 0, exp |-> e.v, okk |-> IF ek.ok THEN 1 ELSE 0, expk |-> ek.v,
      mbin |-> IF kind = "base" THEN BinMarks(w) ELSE <<>>, mc |-> IF kind = "base" THEN CMarks(w) ELSE <<>>,
      isunion |-> IF d.d = "union" THEN 1 ELSE 0, isarg |-> IF Has(d, "is_arg") THEN 1 ELSE 0]

CasesOfDef(sid, S, d) ==
  LET ty == [ref |-> d.name]
      vals == [v \in 1..3 |-> Val(S, ty, v - 1, 0)]
      base == [v \in 1..3 |-> Case(sid, S, d, "base", "v" \o ToString(v - 1), vals[v])]
      evo == LET es == EvoSeq(vals[2], {d.fields[q].id : q \in 1..Len(d.fields)}) \o BigSeq(vals[2], d.name) \o EnumSeq(S, d, vals[2]) \o MapValSeq(vals[2]) IN [i \in 1..Len(es) |-> Case(sid, S, d, "evo", es[i].how, es[i].w)]
      dflt == IF d.d = "union" THEN <<>>
              ELSE <<[sid |-> sid, ty |-> d.name, kind |-> "dflt", how |-> "default", w |-> Struct(<<>>),
                      bin |-> <<0>>, binle |-> <<0>>, cs |-> <<0>>,
                      ok |-> IF EmptyDecodes(S, d.name) THEN 1 ELSE 0, exp |-> DefaultVal(S, d.name),
                      okk |-> IF EmptyDecodes(S, d.name) THEN 1 ELSE 0, expk |-> DefaultVal(S, d.name),
                      mbin |-> <<>>, mc |-> <<>>,
                      isunion |-> 0, isarg |-> IF Has(d, "is_arg") THEN 1 ELSE 0]>>
  IN base \o evo \o dflt

RECURSIVE CasesOfSchema(_, _, _)
CasesOfSchema(sid, S, i) ==
  IF i > Len(S.defs) THEN <<>>
  ELSE (IF IsMsgDef(S.defs[i]) THEN CasesOfDef(sid, S, S.defs[i]) ELSE <<>>) \o CasesOfSchema(sid, S, i + 1)

RECURSIVE AllCases(_)
AllCases(k) == IF k > Len(Schemas) THEN <<>> ELSE CasesOfSchema(Schemas[k].name, Schemas[k], 1) \o AllCases(k + 1)

ASSUME ndJsonSerialize(IOEnv.VERIF_OUT, AllCases(1))
=============================================================================
