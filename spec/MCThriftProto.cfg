SPECIFICATION Spec
CONSTANTS
  Ids <- MCIdsQuick
  MaxDepth = 3
  MaxElems = 2
INVARIANTS Sync PendingDiscipline Fresh StackShape NoBad Emit
CHECK_DEADLOCK FALSE
