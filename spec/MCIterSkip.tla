----------------------------- MODULE MCIterSkip -----------------------------
(* Exhaustive check of the iterative skipper on the binary encodings of the whole value-tree universe (plus a trailer the *)
(* skipper must not touch) and of nesting up to 80: every reachable state of every run satisfies the invariants, every   *)
(* run terminates.                                                                                                       *)
EXTENDS IterSkip, ThriftBinary, ThriftUniverse, SequencesExt, FiniteSets

RECURSIVE DeepS(_)
DeepS(d) == IF d = 0 THEN Struct(<<>>) ELSE Struct(<<Fld(1, DeepS(d - 1))>>)
RECURSIVE DeepL(_)
DeepL(d) == IF d = 0 THEN List(T_I8, <<>>) ELSE List(T_LIST, <<DeepL(d - 1)>>)
RECURSIVE DeepM(_)
DeepM(d) == IF d = 0 THEN Map(T_I8, T_I8, <<>>) ELSE Map(T_I8, T_MAP, << <<Leaf("i8", <<1>>), DeepM(d - 1)>> >>)
Deep == {DeepS(d) : d \in {1, 2, 9, 64, 80}} \cup {DeepL(d) : d \in {1, 9, 80}} \cup {DeepM(d) : d \in {1, 9, 80}}
Trailer == <<12, 255, 7>>
CaseOf(v) == [bytes |-> BinEnc(v, FALSE) \o Trailer, t |-> TTypeOf(v), n |-> BinLen(v)]
Cases == {CaseOf(QuickTrees[i]) : i \in 1..Len(QuickTrees)} \cup {CaseOf(v) : v \in Deep}

Init == Idle
Next == (\E c \in Cases : pc = "idle" /\ Start(c.bytes, c.t, c.n)) \/ Step
Spec == Init /\ [][Next]_svars /\ WF_svars(Step)
Terminates == pc = "loop" ~> pc = "done"
NCases == Cardinality(Cases)
=============================================================================
