---------------------------- MODULE MCAutoDerive ----------------------------
(* Exhaustive evaluation of the as-built derive decisions (both instances of the plugin: Hash/Eq/Ord and PartialOrd) on all *)
(* type graphs over three structs A (two members), B and C (one member each), members over {A, B, C} x {direct, Arc, btree   *)
(* map value} and the leaves f64 (direct, btree map value), i32 (direct, hash map value): 13^4 = 28 561 graphs, each in all *)
(* six orders of the top-level calls.                                                                                        *)
(*  Theorem      the decisions are the ideal ones in every order, never depend on the order, and the emitted derives compile. *)
(*  Refutations  (a) with the type graph as it was before fix 0004637 (no edges through Arc / btree) some graph in some order  *)
(*               gets a derive its members do not support; (b) with the predicate as it was before fix 280118d (Vec peeled    *)
(*               only) an f64 behind a btree map still derives.  Both sets must be non-empty, else the model is vacuous.      *)
(* Every graph is written with the predicted outcome and a signature; C14 compiles representatives of every signature.       *)
EXTENDS AutoDerive, Json, IOUtils, SequencesExt
NodeVias == {"direct", "arc", "bmap"}
NodeM == [to : {"A", "B", "C"}, via : NodeVias]
LeafM == {[to |-> "f64", via |-> "direct"], [to |-> "f64", via |-> "bmap"], [to |-> "i32", via |-> "direct"], [to |-> "i32", via |-> "hmap"]}
M == NodeM \cup LeafM
Graphs == {[n \in {"A", "B", "C"} |-> IF n = "A" THEN <<a1, a2>> ELSE IF n = "B" THEN <<b1>> ELSE <<c1>>] : a1 \in M, a2 \in M, b1 \in M, c1 \in M}
Orders == {<<"A","B","C">>, <<"A","C","B">>, <<"B","A","C">>, <<"B","C","A">>, <<"C","A","B">>, <<"C","B","A">>}
Fixed == AllVias
PreFix == {"direct", "list", "hmap"}
O1 == <<"A","B","C">>
Kinds == {"heo", "po"}
Thm(g) == \A K \in Kinds :
            /\ \A o \in Orders : AsBuilt(K, g, Fixed, o) = AsBuilt(K, g, Fixed, O1)
            /\ AsBuilt(K, g, Fixed, O1) = [n \in DOMAIN g |-> IdealDerive(K, g, n)]
            /\ Compiles(K, g, AsBuilt(K, g, Fixed, O1))
RefutedBeforeFix == {g \in Graphs : \E K \in Kinds : \E o \in Orders : ~Compiles(K, g, AsBuilt(K, g, PreFix, o))}
RefutedOldPredicate == {g \in Graphs : \E o \in Orders : ~Compiles("heo", g, AsBuilt("heo-old", g, Fixed, o))}

OnCycle(g, x, m) == m.to \notin Leaves /\ x \in Reach(g, m.to)
SigOf(g, d, e) == UNION {{<<d[x], e[x], g[x][i].via, IF g[x][i].to \in Leaves THEN g[x][i].to ELSE IF d[g[x][i].to] THEN "derives" ELSE IF e[g[x][i].to] THEN "po-only" ELSE "plain", OnCycle(g, x, g[x][i])>>
                        : i \in DOMAIN g[x]} : x \in DOMAIN g}
Row(g) == LET d == AsBuilt("heo", g, Fixed, O1)
              e == AsBuilt("po", g, Fixed, O1)
          IN [g |-> g, ok |-> Compiles("heo", g, d) /\ Compiles("po", g, e), blind |-> Blind(g),
              refuted_before_fix |-> g \in RefutedBeforeFix \/ g \in RefutedOldPredicate, sig |-> SetToSeq(SigOf(g, d, e))]
ASSUME \A g \in Graphs : Thm(g) \/ Assert(FALSE, <<"as-built derive decision differs from the ideal one", g>>)
ASSUME Assert(RefutedBeforeFix # {}, "the model cannot tell the type graph before fix 0004637 from the one after it")
ASSUME Assert(RefutedOldPredicate # {}, "the model cannot tell the predicate before fix 280118d from the one after it")
ASSUME PrintT(<<"graphs", Cardinality(Graphs), "refuted with the old type graph", Cardinality(RefutedBeforeFix), "refuted with the old predicate", Cardinality(RefutedOldPredicate)>>)
ASSUME ndJsonSerialize(IOEnv.VERIF_OUT, SetToSeq({Row(g) : g \in Graphs}))
=============================================================================
