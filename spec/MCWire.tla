------------------------------- MODULE MCWire -------------------------------
(***************************************************************************)
(* TLC as evaluator of the reference codecs for the interoperability       *)
(* property C03 (and the envelope part of C04):                            *)
(*  - decode cases: every one of the 256 type bytes in every type position *)
(*    of the binary protocols, every compact type nibble / key-value byte, *)
(*    with the outcome the REFERENCE decoder gives (value or error);       *)
(*  - message envelopes: 4 message types x sequence-id classes x name      *)
(*    lengths, in all three protocols, plus malformed envelopes;           *)
(*  - the standard TApplicationException struct {1: string message,        *)
(*    2: i32 type}, canonical, reordered, and with unknown fields.         *)
(* Output: NDJSON written to VERIF_OUT.                                    *)
(***************************************************************************)
EXTENDS ThriftUniverse, ThriftBinary, ThriftCompact, TLC, Json, IOUtils

DecCase(grp, proto, t, bytes, strict) ==
  LET r == IF proto = "compact" THEN CDec(t, bytes, 0) ELSE BinDec(t, bytes, 0, proto = "binle") IN
  [kind |-> "dec", grp |-> grp, proto |-> proto, t |-> t, bytes |-> bytes, ok |-> IF r.ok THEN 1 ELSE 0,
   v |-> IF r.ok THEN r.val ELSE [k |-> "err"], used |-> IF r.ok THEN r.pos ELSE 0, strict |-> strict]

ValEnc(proto, b) == IF b \in ValueTTypes
                    THEN (IF proto = "compact" THEN CEnc(RepAny(b)) ELSE BinEnc(RepAny(b), proto = "binle"))
                    ELSE <<>>
BinProtos == {"bin", "binle"}
\* binary family: byte b as field type, list/set element type (n = 1 and n = 0), map key / value type
BinTypeCases ==
  UNION { UNION {
    { DecCase("field-type", p, T_STRUCT, <<b>> \o I16B(1, p = "binle") \o ValEnc(p, b) \o <<0>>, 1),
      DecCase("list-elem-type", p, T_LIST, <<b>> \o I32B(1, p = "binle") \o ValEnc(p, b), 1),
      DecCase("set-elem-type", p, T_SET, <<b>> \o I32B(1, p = "binle") \o ValEnc(p, b), 1),
      DecCase("list-elem-type-empty", p, T_LIST, <<b>> \o I32B(0, p = "binle"), IF b \in KnownTTypes THEN 1 ELSE 0),
      DecCase("map-key-type", p, T_MAP, <<b, T_I8>> \o I32B(1, p = "binle") \o ValEnc(p, b) \o <<7>>, 1),
      DecCase("map-val-type", p, T_MAP, <<T_I8, b>> \o I32B(1, p = "binle") \o <<7>> \o ValEnc(p, b), 1),
      DecCase("map-types-empty", p, T_MAP, <<b, b>> \o I32B(0, p = "binle"), IF b \in KnownTTypes THEN 1 ELSE 0) }
    : b \in 0..255 } : p \in BinProtos }

CValEnc(c) == IF c \in 3..13 THEN CEnc(RepAny(FromCompact(c))) ELSE IF c \in {1, 2} THEN <<c>> ELSE <<>>
\* compact: every header byte of a first field (delta form and long form), every collection header
\* byte with size nibble 1 and 0 and 15, every map key/value byte
CompactTypeCases ==
  UNION {
    { DecCase("c-field-header", "compact", T_STRUCT,
              <<h>> \o (IF h \div 16 = 0 /\ h % 16 # 0 THEN <<2>> ELSE <<>>)      \* long form: zig-zag id 1
                    \o (IF h % 16 \in {1, 2} THEN <<>> ELSE CValEnc(h % 16)) \o <<0>>,
              \* a non-zero byte with type nibble 0 is no valid encoding at all; implementations
              \* (Apache's included) commonly read it as STOP: outcome not constrained
              IF h % 16 = 0 /\ h # 0 THEN 0 ELSE 1),
      DecCase("c-list-header", "compact", T_LIST,
              <<h>> \o (IF h \div 16 = 15 THEN <<1>> ELSE <<>>)
                    \o (IF h \div 16 \in {1, 15} THEN CValEnc(h % 16) ELSE <<>>),
              IF h \div 16 \in {1, 15} \/ h % 16 \in 1..13 THEN 1 ELSE 0),
      DecCase("c-map-kv", "compact", T_MAP, <<1, h>> \o CValEnc(h \div 16) \o CValEnc(h % 16), 1) }
    : h \in 0..255 }

\* --------------------------------------------------------------------------- envelopes
SeqVals == {FromInt(0, 32), FromInt(1, 32), FromInt(-1, 32), FromInt(2147483647, 32), FromInt(-2147483647 - 1, 32),
            FromInt(127, 32), FromInt(128, 32), FromInt(16384, 32)}
NameOfLen(n) == [i \in 1..n |-> 97 + (i % 26)]
Envelopes ==
  { [kind |-> "env", name |-> NameOfLen(n), mtype |-> mt, seq |-> s,
     bin |-> BinMsgBegin(NameOfLen(n), mt, s, FALSE), binle |-> BinMsgBegin(NameOfLen(n), mt, s, TRUE),
     compact |-> CMsgBegin(NameOfLen(n), mt, s)]
    : n \in {0, 1, 127, 128}, mt \in MessageTypes, s \in SeqVals }
\* theorem: the reference envelope decoders invert the encoders
ASSUME \A e \in Envelopes :
         /\ LET d == BinMsgDec(e.bin, FALSE) IN d.ok /\ d.name = e.name /\ d.mtype = e.mtype /\ d.seq = e.seq /\ d.pos = Len(e.bin)
         /\ LET d == BinMsgDec(e.binle, TRUE) IN d.ok /\ d.name = e.name /\ d.mtype = e.mtype /\ d.seq = e.seq /\ d.pos = Len(e.binle)
         /\ LET d == CMsgDec(e.compact) IN d.ok /\ d.name = e.name /\ d.mtype = e.mtype /\ d.seq = e.seq /\ d.pos = Len(e.compact)

BadEnv(proto, why, bytes) ==
  [kind |-> "badenv", proto |-> proto, why |-> why, bytes |-> bytes,
   refok |-> IF proto = "compact" THEN (IF CMsgDec(bytes).ok THEN 1 ELSE 0)
             ELSE (IF BinMsgDec(bytes, proto = "binle").ok THEN 1 ELSE 0)]
EnvTail == I32B(1, FALSE) \o <<97>> \o I32B(5, FALSE)
EnvTailLe == I32B(1, TRUE) \o <<97>> \o I32B(5, TRUE)
BadEnvelopes ==
  { BadEnv("bin", "message type 0", <<128, 1, 0, 0>> \o EnvTail), BadEnv("bin", "message type 5", <<128, 1, 0, 5>> \o EnvTail),
    BadEnv("bin", "message type 7", <<128, 1, 0, 7>> \o EnvTail), BadEnv("bin", "version 0x8002", <<128, 2, 0, 1>> \o EnvTail),
    BadEnv("bin", "no version bit", <<0, 1, 0, 1>> \o EnvTail),
    BadEnv("bin", "truncated", <<128, 1, 0, 1, 0, 0, 0, 1>>),
    BadEnv("binle", "message type 0", <<0, 0, 136, 136>> \o EnvTailLe), BadEnv("binle", "message type 6", <<6, 0, 136, 136>> \o EnvTailLe),
    BadEnv("binle", "big-endian version word", <<128, 1, 0, 1>> \o EnvTailLe),
    BadEnv("compact", "protocol id 0x83", <<131, 33, 5, 1, 97>>), BadEnv("compact", "version 2", <<130, 34, 5, 1, 97>>),
    BadEnv("compact", "message type 0", <<130, 1, 5, 1, 97>>), BadEnv("compact", "message type 5", <<130, 161, 5, 1, 97>>),
    BadEnv("compact", "message type 7", <<130, 225, 5, 1, 97>>), BadEnv("compact", "truncated name", <<130, 33, 5, 3, 97>>) }
ASSUME \A b \in BadEnvelopes : b.refok = 0

\* --------------------------------------------------------------------------- TApplicationException
AppExc(msg, kind, order, extra) ==
  LET f1 == Fld(1, Leaf("string", msg))  f2 == Fld(2, Leaf("i32", kind))
      x == Fld(3, RepAny(extra))
      fs == IF order = "12" THEN <<f1, f2>> ELSE IF order = "21" THEN <<f2, f1>>
            ELSE IF order = "x12" THEN <<Fld(-1, RepAny(extra)), f1, f2>> ELSE <<f1, x, f2>>
      v == Struct(fs)
  IN [kind |-> "appexc", msg |-> msg, code |-> kind, order |-> order,
      bin |-> BinEnc(v, FALSE), binle |-> BinEnc(v, TRUE), compact |-> CEnc(v)]
AppExcs ==
  { AppExc(StrOfLen(n), FromInt(k, 32), "12", T_I8) : n \in {0, 1, 11, 128}, k \in {0, 1, 6, 10, -1, 2147483647} }
  \cup { AppExc(StrOfLen(11), FromInt(6, 32), o, x) : o \in {"21", "x12", "1x2"}, x \in ElemTypes }

All == SetToSeq(BinTypeCases) \o SetToSeq(CompactTypeCases) \o SetToSeq(Envelopes) \o SetToSeq(BadEnvelopes) \o SetToSeq(AppExcs)
ASSUME ndJsonSerialize(IOEnv.VERIF_OUT, All)
ASSUME PrintT(<<"WIRE", Len(All)>>)
=============================================================================
