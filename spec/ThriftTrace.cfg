SPECIFICATION TraceSpec
INVARIANT TypeOK
POSTCONDITION TraceAccepted
CHECK_DEADLOCK FALSE
