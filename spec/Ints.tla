------------------------------- MODULE Ints -------------------------------
(***************************************************************************)
(* Exact W-bit two's-complement integers for W \in {16, 32, 64}.           *)
(*                                                                         *)
(* TLC's integers are 32-bit, so a W-bit integer is a little-endian        *)
(* sequence of W/16 limbs, each in 0..65535 ("limb int").  All arithmetic  *)
(* below stays well inside 31 bits.  Bytes are integers in 0..255; byte    *)
(* strings are sequences of bytes.                                         *)
(***************************************************************************)
EXTENDS Integers, Sequences

NLimbs(W) == W \div 16
IsLimbInt(x, W) == /\ Len(x) = NLimbs(W)
                   /\ \A i \in 1..Len(x) : x[i] \in 0..65535
IsNeg(x) == x[Len(x)] >= 32768
ZeroInt(W) == [i \in 1..NLimbs(W) |-> 0]
OnesInt(W) == [i \in 1..NLimbs(W) |-> 65535]

\* Small TLC integer (-2^31 <= n < 2^31) -> W-bit limb int (sign extended / truncated).
FromInt(n, W) ==
  LET m  == IF n >= 0 THEN n ELSE -(n + 1)           \* n < 0: m = ~n, 0 <= m < 2^31
      lo == m % 65536
      hi == (m \div 65536) % 65536
      raw == [i \in 1..NLimbs(W) |-> IF i = 1 THEN lo ELSE IF i = 2 THEN hi ELSE 0]
  IN IF n >= 0 THEN raw ELSE [i \in 1..NLimbs(W) |-> 65535 - raw[i]]

\* W <= 32 only: limb int -> TLC integer.
ToInt(x) ==
  IF Len(x) = 1 THEN (IF x[1] >= 32768 THEN x[1] - 65536 ELSE x[1])
  ELSE (IF x[2] >= 32768 THEN (x[2] - 65536) * 65536 + x[1] ELSE x[2] * 65536 + x[1])

\* unsigned value of a limb int known to be below 2^31
ToNat(x) == IF Len(x) = 1 THEN x[1] ELSE x[2] * 65536 + x[1]

Compl(x) == [i \in 1..Len(x) |-> 65535 - x[i]]
Shl1(x)  == [i \in 1..Len(x) |-> ((2 * x[i]) % 65536) + (IF i > 1 THEN x[i-1] \div 32768 ELSE 0)]
Shr1(x)  == [i \in 1..Len(x) |-> x[i] \div 2 + (IF i < Len(x) THEN (x[i+1] % 2) * 32768 ELSE 0)]

\* (n << 1) ^ (n >> W-1)   and its inverse  (u >>> 1) ^ -(u & 1)
ZigZag(x)   == IF IsNeg(x) THEN Compl(Shl1(x)) ELSE Shl1(x)
UnZigZag(u) == IF u[1] % 2 = 1 THEN Compl(Shr1(u)) ELSE Shr1(u)

\* widen / narrow by sign extension / truncation
SignExtend(x, W) == [i \in 1..NLimbs(W) |-> IF i <= Len(x) THEN x[i] ELSE IF IsNeg(x) THEN 65535 ELSE 0]
ZeroExtend(x, W) == [i \in 1..NLimbs(W) |-> IF i <= Len(x) THEN x[i] ELSE 0]
Truncate(x, W)   == [i \in 1..NLimbs(W) |-> x[i]]

Pow2(n) == 2 ^ n     \* n <= 30

\* 7-bit group k (k >= 0) of the unsigned value of x
Group7(x, k) ==
  LET o == 7 * k
      j == o \div 16
      s == o % 16
      n == Len(x)
      a == IF j + 1 <= n THEN x[j+1] \div Pow2(s) ELSE 0
      b == IF s > 9 /\ j + 2 <= n THEN (x[j+2] % Pow2(s - 9)) * Pow2(16 - s) ELSE 0
  IN (a + b) % 128

MaxGroups(W) == (W + 6) \div 7        \* 3, 5, 10

\* number of 7-bit groups needed (at least 1)
RECURSIVE NGroupsFrom(_, _)
NGroupsFrom(x, k) == IF k = 0 THEN 1
                     ELSE IF Group7(x, k) # 0 THEN k + 1 ELSE NGroupsFrom(x, k - 1)
NGroups(x) == NGroupsFrom(x, MaxGroups(16 * Len(x)) - 1)

\* LEB128 of the unsigned value of x
UVarint(x) == LET n == NGroups(x) IN
              [k \in 1..n |-> Group7(x, k - 1) + (IF k < n THEN 128 ELSE 0)]
\* zig-zag varint of a signed limb int
ZVarint(x) == UVarint(ZigZag(x))
UVarintLen(x) == NGroups(x)

\* bytes, big / little endian
BE(x) == [i \in 1..(2 * Len(x)) |->
            LET l == x[Len(x) - ((i - 1) \div 2)] IN IF i % 2 = 1 THEN l \div 256 ELSE l % 256]
LE(x) == [i \in 1..(2 * Len(x)) |->
            LET l == x[((i - 1) \div 2) + 1] IN IF i % 2 = 1 THEN l % 256 ELSE l \div 256]
\* inverse: 2*n bytes starting at bytes[pos+1] -> limb int of n limbs
FromBE(bytes, pos, n) == [i \in 1..n |-> bytes[pos + 2 * (n - i) + 1] * 256 + bytes[pos + 2 * (n - i) + 2]]
FromLE(bytes, pos, n) == [i \in 1..n |-> bytes[pos + 2 * (i - 1) + 2] * 256 + bytes[pos + 2 * (i - 1) + 1]]

(***************************************************************************)
(* Decoding a LEB128 varint at offset pos (0-based) of bytes into W bits.  *)
(* Result: [ok, val, n] with n = bytes consumed.  Fails when the input     *)
(* ends inside the varint or when more than MaxGroups(W) bytes carry a     *)
(* continuation bit.  Bits beyond W are dropped (as `integer-encoding`).   *)
(***************************************************************************)
RECURSIVE VarintEnd(_, _, _, _)
\* index (1-based) of the terminating byte, or 0
VarintEnd(bytes, pos, k, max) ==
  IF k > max \/ pos + k > Len(bytes) THEN 0
  ELSE IF bytes[pos + k] < 128 THEN k ELSE VarintEnd(bytes, pos, k + 1, max)

RECURSIVE SumGroups(_, _, _, _, _)
\* limb j (0-based) of the value whose groups are bytes[pos+1..pos+n] % 128
SumGroups(bytes, pos, n, j, k) ==
  IF k > n THEN 0
  ELSE LET g == bytes[pos + k] % 128
           o == 7 * (k - 1)
           s == o % 16
           sh == g * Pow2(s)
           here == IF o \div 16 = j THEN sh % 65536 ELSE 0
           up   == IF o \div 16 = j - 1 THEN sh \div 65536 ELSE 0
       IN here + up + SumGroups(bytes, pos, n, j, k + 1)

DecUVarint(bytes, pos, W) ==
  LET n == VarintEnd(bytes, pos, 1, MaxGroups(W)) IN
  IF n = 0 THEN [ok |-> FALSE, val |-> ZeroInt(W), n |-> 0]
  ELSE [ok |-> TRUE, n |-> n,
        val |-> [i \in 1..NLimbs(W) |-> SumGroups(bytes, pos, n, i - 1, 1) % 65536]]
DecZVarint(bytes, pos, W) ==
  LET r == DecUVarint(bytes, pos, W) IN [r EXCEPT !.val = UnZigZag(r.val)]

\* comparison helpers on small unsigned limb ints
IsSmall(x) == \A i \in 1..Len(x) : i <= 2 \/ x[i] = 0      \* fits in 32 bits
FitsNat31(x) == IsSmall(x) /\ (Len(x) < 2 \/ x[2] < 32768)
=============================================================================
