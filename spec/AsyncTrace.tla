----------------------------- MODULE AsyncTrace -----------------------------
(***************************************************************************)
(* Trace validation of the asynchronous decoders: the poll_read log of the *)
(* scripted stream (capacity offered, bytes taken / Pending / end of file) *)
(* must be a behaviour of ThriftAsync for the message's request sequence.  *)
(*   {"op":"areset","reads":[...],"eof":n}   new run: message and stream   *)
(*   {"op":"poll","cap":c,"got":g}           g = -1 Pending, 0 end of file *)
(*   {"op":"done","res":"ok"|"err","taken":n}                              *)
(* Every poll must offer exactly the capacity the model computes, so a     *)
(* decoder that asks for more than the message owns is rejected at that    *)
(* poll, whatever the schedule.                                            *)
(***************************************************************************)
EXTENDS ThriftAsync, TLC, Json, IOUtils

Rec == ndJsonDeserialize(IOEnv.VERIF_TRACE)
VARIABLE i
tvars == <<vars, i>>
Ev == Rec[i]

TInit == /\ i = 1 /\ reads = <<>> /\ eofAt = 0 /\ req = 1 /\ got = 0 /\ taken = 0 /\ pend = 0 /\ res = "ok"

TReset == /\ Ev.op = "areset" /\ res # "run"
          /\ reads' = Ev.reads /\ eofAt' = Ev.eof /\ req' = 1 /\ got' = 0 /\ taken' = 0 /\ pend' = 0 /\ res' = "run"
TPoll == /\ Ev.op = "poll" /\ res = "run" /\ req <= Len(reads) /\ Ev.cap = Cap
         /\ IF Ev.got = -1 THEN Pending
            ELSE IF Ev.got = 0 THEN Eof
            ELSE Deliver(Ev.got)
TDone == /\ Ev.op = "done"
         /\ \/ res = "run" /\ Finish /\ Ev.res = "ok" /\ Ev.taken = taken
            \/ res = "err" /\ Ev.res = "err" /\ Ev.taken = taken /\ UNCHANGED vars
TNext == i <= Len(Rec) /\ i' = i + 1 /\ (TReset \/ TPoll \/ TDone)
TSpec == TInit /\ [][TNext]_tvars

NoOverReadT == res = "run" /\ req <= Len(reads) => Cap <= MsgLen - taken
TraceAccepted ==
  LET d == TLCGet("stats").diameter IN
  IF d - 1 = Len(Rec) THEN TRUE ELSE Print(<<"REJECTED", d, Rec[d]>>, FALSE)
=============================================================================
