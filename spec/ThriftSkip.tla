------------------------------ MODULE ThriftSkip ------------------------------
(***************************************************************************)
(* Skipping a value (property C07).                                        *)
(*                                                                         *)
(* Ideal: skipping a value of wire type t consumes exactly the bytes of    *)
(* its encoding and reports that number: SkipLen = length of the ideal     *)
(* encoding (ThriftBinary.BinLen / Len(ThriftCompact.CEnc)).               *)
(*                                                                         *)
(* As built there are three skippers:                                      *)
(*  RecSkip   TInputProtocol::skip_till_depth (mod.rs), recursive, with a  *)
(*            budget that is decremented per nesting level and answers     *)
(*            DepthLimit when it reaches 0 on entry;                       *)
(*  AsyncSkip TAsyncInputProtocol::skip_till_depth, same budget rule;      *)
(*  IterSkip  TBinaryUnsafeInputProtocol::skip_till_depth, iterative with  *)
(*            an explicit stack, ignores the budget (module IterSkip).     *)
(* Need(v) is the budget a recursive skipper needs for v: 1 for the value  *)
(* itself plus the largest need among its children.                        *)
(***************************************************************************)
EXTENDS ThriftTypes

MaxSkipDepth == 64      \* MAXIMUM_SKIP_DEPTH, "the documented limit"

RECURSIVE Need(_)
RECURSIVE NeedMax(_, _, _)
NeedMax(Op(_), s, i) == IF i > Len(s) THEN 0
                        ELSE LET a == Op(s[i])  b == NeedMax(Op, s, i + 1) IN IF a > b THEN a ELSE b
Need(v) ==
  CASE v.k \in LeafKinds -> 1
    [] v.k = "struct" -> 1 + NeedMax(LAMBDA f : Need(f.x), v.fs, 1)
    [] v.k \in {"list", "set"} -> 1 + NeedMax(Need, v.es, 1)
    [] v.k = "map" -> 1 + NeedMax(LAMBDA p : LET a == Need(p[1]) b == Need(p[2]) IN IF a > b THEN a ELSE b, v.kvs, 1)

\* outcome of the recursive skippers with budget D on a well-formed encoding of v
RecSkipOutcome(v, D) == IF Need(v) <= D THEN "ok" ELSE "depth-limit"
=============================================================================
