---------------------------- MODULE ThriftBinary ----------------------------
(***************************************************************************)
(* The Thrift *binary* protocol, written from the Apache specification     *)
(* (doc/specs/thrift-binary-protocol.md): an executable encoder and a      *)
(* total decoder over byte sequences.  `le = TRUE` gives pilota's          *)
(* little-endian variant (binary_le.rs): identical framing, integers,      *)
(* doubles, lengths and field ids little-endian, version word 0x8888.      *)
(* This module is the independent reference codec of properties C01, C03,  *)
(* C04, C07, C09, C11 and C12; it contains no knowledge of pilota's code.  *)
(***************************************************************************)
EXTENDS ThriftTypes

Rev(s) == [i \in 1..Len(s) |-> s[Len(s) + 1 - i]]
IntBytes(x, le) == IF le THEN LE(x) ELSE BE(x)
I16B(n, le) == IntBytes(FromInt(n, 16), le)
I32B(n, le) == IntBytes(FromInt(n, 32), le)

\* tb = the byte used for TRUE (any non-zero byte is legal; encoders send 1)
RECURSIVE BinEncB(_, _, _)
BinEncB(v, le, tb) ==
  CASE v.k = "bool"   -> IF v.v[1] = 0 THEN <<0>> ELSE <<tb>>
    [] v.k = "i8"     -> v.v
    [] v.k \in {"i16", "i32", "i64"} -> IntBytes(v.v, le)
    [] v.k = "double" -> IF le THEN Rev(v.v) ELSE v.v
    [] v.k = "uuid"   -> v.v
    [] v.k \in {"binary", "string"} -> I32B(Len(v.v), le) \o v.v
    [] v.k = "struct" ->
         Flat([i \in 1..Len(v.fs) |->
                 <<TTypeOf(v.fs[i].x)>> \o I16B(v.fs[i].id, le) \o BinEncB(v.fs[i].x, le, tb)]) \o <<T_STOP>>
    [] v.k \in {"list", "set"} ->
         <<v.et>> \o I32B(Len(v.es), le) \o Flat([i \in 1..Len(v.es) |-> BinEncB(v.es[i], le, tb)])
    [] v.k = "map" ->
         <<v.kt, v.vt>> \o I32B(Len(v.kvs), le)
            \o Flat([i \in 1..Len(v.kvs) |-> BinEncB(v.kvs[i][1], le, tb) \o BinEncB(v.kvs[i][2], le, tb)])
BinEnc(v, le) == BinEncB(v, le, 1)

\* encoded length without building the bytes
RECURSIVE BinLen(_)
RECURSIVE BinLenSeq(_, _)
BinLenSeq(s, i) == IF i > Len(s) THEN 0 ELSE BinLen(s[i]) + BinLenSeq(s, i + 1)
RECURSIVE BinLenKvs(_, _)
BinLenKvs(s, i) == IF i > Len(s) THEN 0 ELSE BinLen(s[i][1]) + BinLen(s[i][2]) + BinLenKvs(s, i + 1)
RECURSIVE BinLenFs(_, _)
BinLenFs(s, i) == IF i > Len(s) THEN 0 ELSE 3 + BinLen(s[i].x) + BinLenFs(s, i + 1)
BinLen(v) ==
  CASE v.k \in {"bool", "i8"} -> 1
    [] v.k = "i16" -> 2  [] v.k = "i32" -> 4  [] v.k \in {"i64", "double"} -> 8  [] v.k = "uuid" -> 16
    [] v.k \in {"binary", "string"} -> 4 + Len(v.v)
    [] v.k = "struct" -> BinLenFs(v.fs, 1) + 1
    [] v.k \in {"list", "set"} -> 5 + BinLenSeq(v.es, 1)
    [] v.k = "map" -> 6 + BinLenKvs(v.kvs, 1)

-----------------------------------------------------------------------------
(* Message envelope (strict form): i32 version|type, string name, i32 seqid *)
BinMsgBegin(name, mtype, seq32, le) ==
  (IF le THEN <<mtype, 0, 136, 136>> ELSE <<128, 1, 0, mtype>>)
    \o I32B(Len(name), le) \o name \o IntBytes(seq32, le)

-----------------------------------------------------------------------------
(* Total decoder.  Result [ok, val, pos]; pos is 0-based offset after the  *)
(* value.  Fails on truncation, on a type code outside the specification   *)
(* in a position that must be interpreted, and on negative lengths.        *)
Fail == [ok |-> FALSE, val |-> [k |-> "err"], pos |-> 0]
Ok(v, p) == [ok |-> TRUE, val |-> v, pos |-> p]
Have(bytes, pos, n) == n >= 0 /\ pos + n <= Len(bytes)
RdInt(bytes, pos, nl, le) == IF le THEN FromLE(bytes, pos, nl) ELSE FromBE(bytes, pos, nl)
Slice(bytes, pos, n) == [i \in 1..n |-> bytes[pos + i]]

RECURSIVE BinDec(_, _, _, _)
RECURSIVE BinDecFields(_, _, _, _)
RECURSIVE BinDecElems(_, _, _, _, _, _)
RECURSIVE BinDecPairs(_, _, _, _, _, _, _)

BinDecFields(bytes, pos, le, acc) ==
  IF ~Have(bytes, pos, 1) THEN Fail
  ELSE LET t == bytes[pos + 1] IN
       IF t = T_STOP THEN Ok([k |-> "struct", fs |-> acc], pos + 1)
       ELSE IF t \notin ValueTTypes \/ ~Have(bytes, pos + 1, 2) THEN Fail
       ELSE LET id == ToInt(RdInt(bytes, pos + 1, 1, le))
                r  == BinDec(t, bytes, pos + 3, le)
            IN IF ~r.ok THEN Fail
               ELSE BinDecFields(bytes, r.pos, le, Append(acc, [id |-> id, x |-> r.val]))

BinDecElems(t, bytes, pos, le, n, acc) ==
  IF n = 0 THEN Ok(acc, pos)
  ELSE LET r == BinDec(t, bytes, pos, le) IN
       IF ~r.ok THEN Fail ELSE BinDecElems(t, bytes, r.pos, le, n - 1, Append(acc, r.val))

BinDecPairs(kt, vt, bytes, pos, le, n, acc) ==
  IF n = 0 THEN Ok(acc, pos)
  ELSE LET rk == BinDec(kt, bytes, pos, le) IN
       IF ~rk.ok THEN Fail
       ELSE LET rv == BinDec(vt, bytes, rk.pos, le) IN
            IF ~rv.ok THEN Fail
            ELSE BinDecPairs(kt, vt, bytes, rv.pos, le, n - 1, Append(acc, <<rk.val, rv.val>>))

\* a 4-byte count/length: non-negative and not larger than what is left
RdCount(bytes, pos, le) ==
  LET x == RdInt(bytes, pos, 2, le) IN
  IF IsNeg(x) \/ ToInt(x) > Len(bytes) - (pos + 4) THEN -1 ELSE ToInt(x)

BinDec(t, bytes, pos, le) ==
  CASE t = T_BOOL   -> IF Have(bytes, pos, 1)
                       THEN Ok([k |-> "bool", v |-> <<IF bytes[pos + 1] = 0 THEN 0 ELSE 1>>], pos + 1) ELSE Fail
    [] t = T_I8     -> IF Have(bytes, pos, 1) THEN Ok([k |-> "i8", v |-> <<bytes[pos + 1]>>], pos + 1) ELSE Fail
    [] t = T_I16    -> IF Have(bytes, pos, 2) THEN Ok([k |-> "i16", v |-> RdInt(bytes, pos, 1, le)], pos + 2) ELSE Fail
    [] t = T_I32    -> IF Have(bytes, pos, 4) THEN Ok([k |-> "i32", v |-> RdInt(bytes, pos, 2, le)], pos + 4) ELSE Fail
    [] t = T_I64    -> IF Have(bytes, pos, 8) THEN Ok([k |-> "i64", v |-> RdInt(bytes, pos, 4, le)], pos + 8) ELSE Fail
    [] t = T_DOUBLE -> IF Have(bytes, pos, 8)
                       THEN Ok([k |-> "double", v |-> IF le THEN Rev(Slice(bytes, pos, 8)) ELSE Slice(bytes, pos, 8)], pos + 8)
                       ELSE Fail
    [] t = T_UUID   -> IF Have(bytes, pos, 16) THEN Ok([k |-> "uuid", v |-> Slice(bytes, pos, 16)], pos + 16) ELSE Fail
    [] t = T_BINARY -> IF ~Have(bytes, pos, 4) THEN Fail
                       ELSE LET n == RdCount(bytes, pos, le) IN
                            IF n < 0 THEN Fail ELSE Ok([k |-> "binary", v |-> Slice(bytes, pos + 4, n)], pos + 4 + n)
    [] t = T_STRUCT -> BinDecFields(bytes, pos, le, <<>>)
    [] t \in {T_LIST, T_SET} ->
         IF ~Have(bytes, pos, 5) THEN Fail
         ELSE LET et == bytes[pos + 1]
                  n  == RdCount(bytes, pos + 1, le)
              IN IF n < 0 \/ (n > 0 /\ et \notin ValueTTypes) \/ et \notin KnownTTypes THEN Fail
                 ELSE LET r == BinDecElems(et, bytes, pos + 5, le, n, <<>>) IN
                      IF ~r.ok THEN Fail
                      ELSE Ok([k |-> IF t = T_LIST THEN "list" ELSE "set", et |-> et, es |-> r.val], r.pos)
    [] t = T_MAP ->
         IF ~Have(bytes, pos, 6) THEN Fail
         ELSE LET kt == bytes[pos + 1]
                  vt == bytes[pos + 2]
                  n  == RdCount(bytes, pos + 2, le)
              IN IF n < 0 \/ (n > 0 /\ (kt \notin ValueTTypes \/ vt \notin ValueTTypes))
                    \/ kt \notin KnownTTypes \/ vt \notin KnownTTypes THEN Fail
                 ELSE LET r == BinDecPairs(kt, vt, bytes, pos + 6, le, n, <<>>) IN
                      IF ~r.ok THEN Fail
                      ELSE Ok([k |-> "map", kt |-> kt, vt |-> vt, kvs |-> r.val], r.pos)
    [] OTHER -> Fail

\* envelope decoder: [ok, name, mtype, seq, pos]
BinMsgDec(bytes, le) ==
  LET bad == [ok |-> FALSE, name |-> <<>>, mtype |-> 0, seq |-> ZeroInt(32), pos |-> 0] IN
  IF ~Have(bytes, 0, 8) THEN bad
  ELSE LET okver == IF le THEN bytes[3] = 136 /\ bytes[4] = 136 /\ bytes[2] = 0
                          ELSE bytes[1] = 128 /\ bytes[2] = 1 /\ bytes[3] = 0
           mt == IF le THEN bytes[1] ELSE bytes[4]
           n  == RdCount(bytes, 4, le)
       IN IF ~okver \/ mt \notin MessageTypes \/ n < 0 \/ ~Have(bytes, 8 + n, 4) THEN bad
          ELSE [ok |-> TRUE, name |-> Slice(bytes, 8, n), mtype |-> mt,
                seq |-> RdInt(bytes, 8 + n, 2, le), pos |-> 12 + n]
=============================================================================
