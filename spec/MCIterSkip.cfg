SPECIFICATION Spec
INVARIANTS ExactOnDone NeverBehind LenIsIndex
PROPERTY Terminates
CHECK_DEADLOCK FALSE
