
