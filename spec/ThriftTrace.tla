----------------------------- MODULE ThriftTrace -----------------------------
(***************************************************************************)
(* Trace validation of pilota's Thrift protocol objects.                   *)
(*                                                                         *)
(* The harness (`drive record`) drives the REAL writers, length passes and *)
(* readers of every protocol x buffer kind with seeded random values far   *)
(* outside TLC's enumeration bounds and logs one NDJSON event per call:    *)
(*   {"op":"reset","p":proto,"buf":kind,"dir":"w"|"r","input":[..]?}        *)
(*   {"op":"init","st":projected state}                                    *)
(*   {"op":"w_*",args..,"out":[bytes appended],"st":state after}           *)
(*   {"op":"l_*",args..,"ret":length returned,"st":state after}            *)
(*   {"op":"r_*",returned value..,"n":bytes consumed,"st":state after}     *)
(* This specification must consume the whole file: every event has to be   *)
(* explained by the as-built models (CompactProto, UnsafeProto) and, for   *)
(* the bytes, by the ideal codecs.  All logged fields are bound, so the    *)
(* search is linear.  Acceptance is by POSTCONDITION on the diameter; on a  *)
(* rejection the first unexplained line is printed.                        *)
(***************************************************************************)
EXTENDS CompactProto, UnsafeProto, ThriftBinary, ThriftCompact, TLC, Json, IOUtils

Rec == ndJsonDeserialize(IOEnv.VERIF_TRACE)

VARIABLES i,      \* next line to consume
          base,   \* line of the current run's reset event
          cs,     \* model state of the object under observation
          pos,    \* reader: offset into the run's input
          lsum,   \* sum of the lengths returned by the run's length calls
          wsum,   \* number of bytes appended by the run's write calls
          zsum    \* payload bytes the run's writes linked into the output instead of copying (zero-copy path)
vars == <<i, base, cs, pos, lsum, wsum, zsum>>

Ev == Rec[i]
Run == Rec[base]
P == Run.p
Buf == Run.buf
IsLe == P = "binle"
Has(f) == f \in DOMAIN Ev

TraceInit == i = 1 /\ base = 1 /\ cs = <<>> /\ pos = 0 /\ lsum = 0 /\ wsum = 0 /\ zsum = 0

\* ---------------------------------------------------------------- expected bytes of a write op
\* binary family (bin, binle, unsafe): stateless
BinOut(e, le) ==
  CASE e.op = "w_bool" -> <<e.b>>
    [] e.op = "w_i8" -> e.v
    [] e.op \in {"w_i16", "w_i32", "w_i64"} -> IntBytes(e.v, le)
    [] e.op = "w_double" -> IF le THEN Rev(e.v) ELSE e.v
    [] e.op = "w_uuid" -> e.v
    [] e.op = "w_binary" -> I32B(Len(e.v), le) \o e.v
    [] e.op = "w_raw" -> e.v                          \* write_bytes_without_len: retained unknown fields, verbatim
    [] e.op = "w_field_begin" -> <<e.t>> \o I16B(e.id, le)
    [] e.op = "w_field_stop" -> <<0>>
    [] e.op \in {"w_list_begin", "w_set_begin"} -> <<e.t>> \o I32B(e.n, le)
    [] e.op = "w_map_begin" -> <<e.kt, e.vt>> \o I32B(e.n, le)
    [] e.op \in {"w_struct_begin", "w_struct_end", "w_field_end", "w_list_end", "w_set_end", "w_map_end"} -> <<>>

\* compact: function of the private state
CompactW(w, e) ==
  CASE e.op = "w_bool" -> WBool(w, e.b)
    [] e.op = "w_i8" -> WI8(w, e.v[1])
    [] e.op \in {"w_i16", "w_i32", "w_i64"} -> WInt(w, e.v)
    [] e.op = "w_double" -> WDouble(w, e.v)
    [] e.op = "w_uuid" -> WUuid(w, e.v)
    [] e.op = "w_binary" -> WBinary(w, e.v)
    [] e.op = "w_raw" -> [ok |-> TRUE, out |-> e.v, w |-> w]
    [] e.op = "w_field_begin" -> WFieldBegin(w, e.t, e.id)
    [] e.op = "w_field_end" -> WFieldEnd(w)
    [] e.op = "w_field_stop" -> WFieldStop(w)
    [] e.op = "w_struct_begin" -> WStructBegin(w)
    [] e.op = "w_struct_end" -> WStructEnd(w)
    [] e.op \in {"w_list_begin", "w_set_begin"} -> WCollBegin(w, e.t, e.n)
    [] e.op = "w_map_begin" -> WMapBegin(w, e.kt, e.vt, e.n)
    [] e.op \in {"w_list_end", "w_set_end", "w_map_end"} -> WCollEnd(w)

\* unchecked writer: cursor movement for an op that produced `out`
UnsafeW(u, e, out) ==
  IF Buf = "bytesmut" THEN UWStore(u, Len(out))
  ELSE IF e.op = "w_field_begin" THEN UWStoreCommit(u, 3)
  ELSE IF e.op = "w_binary" /\ TakesZc(Buf, e.api, Len(e.v)) THEN UWZeroCopy(u)
  ELSE UWStore(u, Len(out))

\* length ops mirror write ops: same record with op renamed
AsWrite(e) == [e EXCEPT !.op = "w_" \o SubSeq(e.op, 3, Len(e.op))]
LenOfOp(e, le) ==   \* binary family: l_binary carries only the payload length
  IF e.op = "l_binary" THEN 4 + e.n ELSE Len(BinOut(AsWrite(e), le))
CompactL(w, e) ==
  IF e.op = "l_binary" THEN LBinaryN(w, e.n) ELSE LOf(CompactW(w, AsWrite(e)))

\* ---------------------------------------------------------------- reader side
Inp == Run.input
Avail == Len(Inp) - pos
Win(n) == [j \in 1..(IF n < Avail THEN n ELSE Avail) |-> Inp[pos + j]]
RdI(p0, nl) == IF IsLe THEN FromLE(Inp, pos + p0, nl) ELSE FromBE(Inp, pos + p0, nl)

\* binary family: [ok, n] -- do the logged return values follow from the input at pos?
BinR(e) ==
  CASE e.op = "r_bool" -> [ok |-> Avail >= 1 /\ e.b = (IF Inp[pos + 1] = 0 THEN 0 ELSE 1), n |-> 1]
    [] e.op = "r_i8" -> [ok |-> Avail >= 1 /\ e.v = <<Inp[pos + 1]>>, n |-> 1]
    [] e.op = "r_i16" -> [ok |-> Avail >= 2 /\ e.v = RdI(0, 1), n |-> 2]
    [] e.op = "r_i32" -> [ok |-> Avail >= 4 /\ e.v = RdI(0, 2), n |-> 4]
    [] e.op = "r_i64" -> [ok |-> Avail >= 8 /\ e.v = RdI(0, 4), n |-> 8]
    [] e.op = "r_double" -> [ok |-> Avail >= 8 /\ e.v = (IF IsLe THEN Rev(Win(8)) ELSE Win(8)), n |-> 8]
    [] e.op = "r_uuid" -> [ok |-> Avail >= 16 /\ e.v = Win(16), n |-> 16]
    [] e.op = "r_binary" -> [ok |-> Avail >= 4 + Len(e.v) /\ RdI(0, 2) = FromInt(Len(e.v), 32)
                                    /\ e.v = [j \in 1..Len(e.v) |-> Inp[pos + 4 + j]], n |-> 4 + Len(e.v)]
    [] e.op = "r_field_begin" -> [ok |-> Avail >= 3 /\ Inp[pos + 1] = e.t /\ e.t # 0 /\ RdI(1, 1) = FromInt(e.id, 16), n |-> 3]
    [] e.op = "r_field_stop" -> [ok |-> Avail >= 1 /\ Inp[pos + 1] = 0, n |-> 1]
    [] e.op \in {"r_list_begin", "r_set_begin"} ->
         \* as built: a count that cannot fit in the remaining input is rejected (>= 1 byte per element)
         \* (an asynchronous reader cannot know how much input remains: events carrying `async` are exempt from the bound)
         [ok |-> Avail >= 5 /\ Inp[pos + 1] = e.t /\ RdI(1, 2) = FromInt(e.cnt, 32) /\ ("async" \in DOMAIN e \/ e.cnt <= Avail - 5), n |-> 5]
    [] e.op = "r_map_begin" ->
         [ok |-> Avail >= 6 /\ Inp[pos + 1] = e.kt /\ Inp[pos + 2] = e.vt /\ RdI(2, 2) = FromInt(e.cnt, 32)
                 /\ ("async" \in DOMAIN e \/ 2 * e.cnt <= Avail - 6), n |-> 6]
    [] e.op \in {"r_struct_begin", "r_struct_end", "r_field_end", "r_list_end", "r_set_end", "r_map_end"} -> [ok |-> TRUE, n |-> 0]

\* compact: [ok, r, n] with the returned values checked
CompactR(r, e) ==
  CASE e.op = "r_bool" -> LET q == RBool(r, Win(1)) IN [ok |-> q.ok /\ q.b = e.b, r |-> q.r, n |-> q.n]
    [] e.op = "r_i8" -> LET q == RI8(r, Win(1)) IN [ok |-> q.ok /\ q.v = e.v, r |-> q.r, n |-> q.n]
    [] e.op = "r_i16" -> LET q == RInt(r, Win(3), 16) IN [ok |-> q.ok /\ q.v = e.v, r |-> q.r, n |-> q.n]
    [] e.op = "r_i32" -> LET q == RInt(r, Win(5), 32) IN [ok |-> q.ok /\ q.v = e.v, r |-> q.r, n |-> q.n]
    [] e.op = "r_i64" -> LET q == RInt(r, Win(10), 64) IN [ok |-> q.ok /\ q.v = e.v, r |-> q.r, n |-> q.n]
    [] e.op = "r_double" -> LET q == RDouble(r, Win(8)) IN [ok |-> q.ok /\ q.v = e.v, r |-> q.r, n |-> q.n]
    [] e.op = "r_uuid" -> LET q == RUuid(r, Win(16)) IN [ok |-> q.ok /\ q.v = e.v, r |-> q.r, n |-> q.n]
    [] e.op = "r_binary" -> LET q == RBinary(r, Win(5 + Len(e.v))) IN [ok |-> q.ok /\ q.v = e.v, r |-> q.r, n |-> q.n]
    [] e.op = "r_field_begin" -> LET q == RFieldBegin(r, Win(4)) IN [ok |-> q.ok /\ q.t = e.t /\ q.id = e.id, r |-> q.r, n |-> q.n]
    [] e.op = "r_field_stop" -> LET q == RFieldBegin(r, Win(4)) IN [ok |-> q.ok /\ q.t = T_STOP, r |-> q.r, n |-> q.n]
    [] e.op = "r_field_end" -> RFieldEnd(r)
    [] e.op = "r_struct_begin" -> RStructBegin(r)
    [] e.op = "r_struct_end" -> RStructEnd(r)
    [] e.op \in {"r_list_begin", "r_set_begin"} ->
         LET q == RCollBegin(r, Win(6)) IN [ok |-> q.ok /\ q.t = e.t /\ q.cnt = e.cnt /\ ("async" \in DOMAIN e \/ q.cnt <= Avail - q.n), r |-> q.r, n |-> q.n]
    [] e.op = "r_map_begin" ->
         LET q == RMapBegin(r, Win(6)) IN
         [ok |-> q.ok /\ q.kt = e.kt /\ q.vt = e.vt /\ q.cnt = e.cnt /\ ("async" \in DOMAIN e \/ 2 * q.cnt <= Avail - q.n), r |-> q.r, n |-> q.n]
    [] e.op \in {"r_list_end", "r_set_end", "r_map_end"} -> RCollEnd(r)

\* --- calls only EMITTED decoders make: the reader's own length methods and skip ------------------------------------
\* a reader-side length event as the writer-side length event of the same call
AsLen(e) == [e EXCEPT !.op = "l_" \o SubSeq(e.op, 4, Len(e.op))]
\* binary family: the reader's length methods are the writer's (stateless)
BinRL(e) == LenOfOp(AsLen(e), IsLe)
CompactRL(r, e) ==
  CASE e.op = "rl_field_begin" -> RLFieldBegin(r, e.t, e.id)
    [] e.op = "rl_field_end" -> RLFieldEnd(r)
    [] e.op = "rl_field_stop" -> RLFieldStop(r)
    [] e.op = "rl_struct_begin" -> RLStructBegin(r)
    [] e.op = "rl_struct_end" -> RLStructEnd(r)
    [] e.op = "rl_bool" -> RLBool(r)
    [] OTHER -> LET q == CompactL(W0, AsLen(e)) IN [ok |-> q.ok, r |-> r, n |-> q.n]    \* stateless lengths
\* skip(t): consumes exactly the value of wire type t that starts at pos (ideal decoders), reports that number, and
\* leaves the compact context as it found it -- except that a bool whose value came with the field header is consumed
SkipEnd(t) == IF P = "compact" THEN CDec(t, Inp, pos) ELSE BinDec(t, Inp, pos, IsLe)

\* unchecked reader cursor
UnsafeR(c, e, n) ==
  IF e.op = "r_binary"
  THEN (IF e.api = "str" THEN URString(c, Len(e.v)) ELSE URSplit(c, Len(e.v)))
  ELSE URLoad(c, n)

\* ---------------------------------------------------------------- actions (one per event kind)
Advance == i' = i + 1

TReset == /\ Ev.op = "reset" /\ Ev.err = ""
          /\ base' = i /\ cs' = <<>> /\ pos' = 0 /\ lsum' = 0 /\ wsum' = 0 /\ zsum' = 0 /\ Advance

\* end of a run that sized and then wrote ONE value (emitted size() / encode()): the size reported, the sum of the
\* length calls and the bytes written are the same number, and a compact object is back in its initial state
TEnd == /\ Ev.op = "end" /\ Advance /\ UNCHANGED <<base, cs, pos, lsum, wsum, zsum>>
        /\ Ev.size = lsum /\ lsum = wsum
        /\ (P = "compact" => cs = W0)

TInit ==
  /\ Ev.op = "init" /\ Advance /\ UNCHANGED <<base, pos, lsum, wsum, zsum>>
  /\ IF P = "compact" THEN Ev.st = (IF Run.dir = "w" THEN W0 ELSE R0) /\ cs' = Ev.st
     ELSE IF P = "unsafe" THEN /\ Ev.st.index = 0
                               /\ (Run.dir = "r" => Ev.st.translen = Len(Inp) /\ Ev.st.buflen = Len(Inp))
                               /\ cs' = Ev.st
     ELSE Ev.st = <<>> /\ cs' = <<>>

IsW == SubSeq(Ev.op, 1, 2) = "w_"
IsL == SubSeq(Ev.op, 1, 2) = "l_"
IsR == SubSeq(Ev.op, 1, 2) = "r_"

TWrite ==
  /\ Ev.op \notin {"reset", "init", "end", "wend"} /\ IsW /\ Advance /\ UNCHANGED <<base, pos>> /\ wsum' = wsum + Len(Ev.out)
  \* a payload at or above the threshold written through a zero-copy capable call onto a zero-copy LinkedBytes is linked in
  /\ zsum' = IF Ev.op = "w_binary" /\ (IF P = "compact" THEN TakesZcCompact(Buf, Ev.api, Len(Ev.v)) ELSE TakesZc(Buf, Ev.api, Len(Ev.v)))
              THEN zsum + Len(Ev.v) ELSE zsum
  \* retained unknown fields are sized by their own length, not through a length call of the protocol
  /\ lsum' = IF Ev.op = "w_raw" THEN lsum + Len(Ev.out) ELSE lsum
  /\ IF P = "compact"
     THEN LET q == CompactW(cs, Ev) IN q.ok /\ q.out = Ev.out /\ q.w = Ev.st /\ cs' = q.w
     ELSE LET out == BinOut(Ev, IsLe) IN
          /\ out = Ev.out
          /\ IF P = "unsafe"
             THEN LET q == UnsafeW(cs, Ev, out) IN q.ok /\ q.u = Ev.st /\ cs' = q.u
             ELSE Ev.st = <<>> /\ cs' = cs

TLen ==
  /\ Ev.op \notin {"reset", "init", "end"} /\ IsL /\ Advance /\ UNCHANGED <<base, pos, wsum, zsum>> /\ lsum' = lsum + Ev.ret
  /\ IF P = "compact"
     THEN LET q == CompactL(cs, Ev) IN q.ok /\ q.n = Ev.ret /\ q.w = Ev.st /\ cs' = q.w
     ELSE /\ LenOfOp(Ev, IsLe) = Ev.ret
          /\ Ev.st = cs /\ cs' = cs              \* a length call never moves the unchecked cursor

TRead ==
  /\ Ev.op \notin {"reset", "init", "end", "endr", "r_skip", "r_get_bytes"} /\ IsR /\ Advance /\ UNCHANGED <<base, lsum, wsum, zsum>>
  /\ IF P = "compact"
     THEN LET q == CompactR(cs, Ev) IN q.ok /\ q.n = Ev.n /\ q.r = Ev.st /\ cs' = q.r /\ pos' = pos + q.n
     ELSE LET q == BinR(Ev) IN
          /\ q.ok /\ q.n = Ev.n /\ pos' = pos + q.n
          /\ IF P = "unsafe"
             THEN LET c == UnsafeR(cs, Ev, q.n) IN
                  c.ok /\ c.c = Ev.st /\ cs' = c.c /\ UConsumed(Len(Inp), c.c) = pos + q.n
             ELSE Ev.st = <<>> /\ cs' = cs

\* end of a write run: zero_copy_len() is exactly the number of payload bytes that took the zero-copy path
TWEnd == /\ Ev.op = "wend" /\ Advance /\ UNCHANGED <<base, cs, pos, lsum, wsum, zsum>>
         /\ Ev.zc = zsum

IsRL == SubSeq(Ev.op, 1, 3) = "rl_"
TReadLen ==
  /\ IsRL /\ Advance /\ UNCHANGED <<base, pos, lsum, wsum, zsum>>
  /\ IF P = "compact"
     THEN LET q == CompactRL(cs, Ev) IN q.ok /\ q.n = Ev.ret /\ q.r = Ev.st /\ cs' = q.r
     ELSE BinRL(Ev) = Ev.ret /\ Ev.st = cs /\ cs' = cs

TSkip ==
  /\ Ev.op = "r_skip" /\ Advance /\ UNCHANGED <<base, lsum, wsum, zsum>>
  /\ IF P = "compact" /\ Ev.t = T_BOOL /\ cs.pv # <<>>
     THEN Ev.n = 0 /\ Ev.ret = 0 /\ cs' = [cs EXCEPT !.pv = <<>>, !.pid = <<>>] /\ Ev.st = cs' /\ pos' = pos
     ELSE LET d == SkipEnd(Ev.t) IN
          /\ d.ok /\ Ev.n = d.pos - pos /\ Ev.ret = Ev.n /\ pos' = d.pos
          /\ IF P = "compact" THEN (Ev.st = [cs EXCEPT !.pid = <<>>] \/ Ev.st = cs) /\ cs' = Ev.st
             ELSE IF P = "unsafe" THEN cs' = Ev.st ELSE Ev.st = cs /\ cs' = cs

\* get_bytes(Some(ptr), len): a copy of input that was already consumed; nothing is consumed, the compact context does not
\* move; the unchecked reader re-bases its cursor but its accounting (advanced + index) stays at the model's position
TGetBytes ==
  /\ Ev.op = "r_get_bytes" /\ Ev.copy /\ Ev.n = 0 /\ Advance /\ UNCHANGED <<base, pos, lsum, wsum, zsum>>
  /\ IF P = "unsafe" THEN UConsumed(Len(Inp), Ev.st) = pos /\ cs' = Ev.st ELSE Ev.st = cs /\ cs' = cs

\* end of an emitted decode: everything up to the trailer was consumed, a compact reader is back in its initial state
TEndR == /\ Ev.op = "endr" /\ Advance /\ UNCHANGED <<base, cs, pos, lsum, wsum, zsum>>
         /\ pos = Ev.used
         /\ (P = "compact" => cs = R0)

TraceNext == i <= Len(Rec) /\ (TReset \/ TInit \/ TWrite \/ TLen \/ TRead \/ TEnd \/ TReadLen \/ TSkip \/ TGetBytes \/ TEndR \/ TWEnd)
TraceSpec == TraceInit /\ [][TraceNext]_vars

\* a compact protocol object is back in its initial state whenever a top-level value is complete
\* (checked by the harness per value; here: the model state itself never leaves its type)
TypeOK == i \in 1..(Len(Rec) + 1)

TraceAccepted ==
  LET d == TLCGet("stats").diameter IN
  IF d - 1 = Len(Rec) THEN TRUE
  ELSE Print(<<"REJECTED", d, Rec[d]>>, FALSE)
=============================================================================
