
