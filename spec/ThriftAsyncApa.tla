--------------------------- MODULE ThriftAsyncApa ---------------------------
(* The transition system of spec/ThriftAsync.tla, typed for Apalache, with the request sizes left SYMBOLIC: a message is *)
(* any sequence of at most MaxLen (= 24) requests of any positive size.  IndInv is inductive (Init => IndInv, IndInv /\ Next => *)
(* IndInv') and implies NoOverRead, Exact, EofIsError, ErrOnlyOnEof -- for messages of every size, which TLC can only   *)
(* sample.                                                                                                              *)
EXTENDS Integers, Sequences, Apalache

CONSTANTS
  \* @type: Int;
  MaxLen,
  \* @type: Int;
  MaxPend

VARIABLES
  \* @type: Seq(Int);
  reads,
  \* @type: Int;
  eofAt,
  \* @type: Int;
  req,
  \* @type: Int;
  got,
  \* @type: Int;
  taken,
  \* @type: Int;
  pend,
  \* @type: Str;
  res

ConstInit == MaxLen = 24 /\ MaxPend \in 0..1000000

\* sum of the first i requests
\* @type: (Seq(Int), Int) => Int;
Sum(s, i) == ApaFoldSet(LAMBDA a, j : a + s[j], 0, {j \in 1..MaxLen : j <= i /\ j <= Len(s)})
MsgLen == Sum(reads, Len(reads))

TypeOK == /\ Len(reads) <= MaxLen
          /\ \A j \in 1..MaxLen : j <= Len(reads) => reads[j] >= 1
          /\ res \in {"run", "ok", "err"}

Init == /\ reads = Gen(24) /\ Len(reads) <= MaxLen
        /\ \A j \in 1..MaxLen : j <= Len(reads) => reads[j] >= 1
        /\ eofAt \in Int /\ 0 <= eofAt /\ eofAt <= MsgLen
        /\ req = 1 /\ got = 0 /\ taken = 0 /\ pend = 0 /\ res = "run"

Cap == reads[req] - got
Avail == eofAt - taken

Finish == /\ res = "run" /\ req > Len(reads)
          /\ res' = "ok" /\ UNCHANGED <<reads, eofAt, req, got, taken, pend>>
Pending == /\ res = "run" /\ req <= Len(reads) /\ pend < MaxPend
           /\ pend' = pend + 1 /\ UNCHANGED <<reads, eofAt, req, got, taken, res>>
Deliver == \E k \in Int :
              /\ res = "run" /\ req <= Len(reads) /\ 1 <= k /\ k <= Cap /\ k <= Avail
              /\ taken' = taken + k /\ pend' = 0 /\ UNCHANGED <<reads, eofAt, res>>
              /\ IF got + k = reads[req] THEN req' = req + 1 /\ got' = 0
                 ELSE got' = got + k /\ UNCHANGED req
Eof == /\ res = "run" /\ req <= Len(reads) /\ Avail = 0
       /\ res' = "err" /\ UNCHANGED <<reads, eofAt, req, got, taken, pend>>
Stutter == UNCHANGED <<reads, eofAt, req, got, taken, pend, res>>
Next == Finish \/ Eof \/ Deliver \/ Pending \/ Stutter

\* ---------------------------------------------------------------- the inductive invariant
IndInv == /\ TypeOK
          /\ 1 <= req /\ req <= Len(reads) + 1
          /\ 0 <= pend
          /\ 0 <= eofAt /\ eofAt <= MsgLen
          /\ taken = Sum(reads, req - 1) + got
          /\ taken <= eofAt
          /\ (req <= Len(reads) => 0 <= got /\ got < reads[req])
          /\ (req > Len(reads) => got = 0)
          /\ (res = "ok" => req > Len(reads))
          /\ (res = "err" => req <= Len(reads) /\ taken = eofAt)
\* IndInit: any state satisfying IndInv (for the inductive step)
IndInit == /\ reads = Gen(24) /\ eofAt \in Int /\ req \in Int /\ got \in Int /\ taken \in Int /\ pend \in Int
           /\ res \in {"run", "ok", "err"}
           /\ IndInv

\* ---------------------------------------------------------------- the properties, as consequences
NoOverRead == (res = "run" /\ req <= Len(reads)) => Cap <= MsgLen - taken
Exact == res = "ok" => taken = MsgLen
EofIsError == res = "ok" => eofAt = MsgLen
ErrOnlyOnEof == res = "err" => eofAt < MsgLen /\ taken = eofAt
Props == NoOverRead /\ Exact /\ EofIsError /\ ErrOnlyOnEof
=============================================================================
