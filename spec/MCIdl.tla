------------------------------- MODULE MCIdl -------------------------------
(***************************************************************************)
(* TLC as enumerator for C15 (and source of the documents C16 mutates):    *)
(* a covering set of documents of G_thrift (DESIGN.md section 5) built     *)
(* with the constructors of ThriftIdl, and per document a set of layouts:  *)
(*   - the default layout and the tight layout,                            *)
(*   - every choice point varied one at a time against the default         *)
(*     (every blank position x every blank kind, every separator slot x    *)
(*     {none , ;}, every literal x quote) -- mode "full" documents,        *)
(*   - thorough tier: every pair of neighbouring choice points,            *)
(*   - seeded pseudo-random layouts (all documents).                       *)
(* "light" documents (the systematic products: keyword-prefixed            *)
(* identifier x position, requiredness x typed default, lexical class of a *)
(* number x position, literal content x position, base type x container    *)
(* shape) get the default, the tight and a few random layouts; their       *)
(* constructs are laid out exhaustively in the full documents.             *)
(* Output: one NDJSON record per document                                  *)
(*   [doc, name, mode, toks, exp, layouts: <<[l, vary, at, c, p]>>]        *)
(* where p = Pieces (list of strings to concatenate) and exp = Exp(doc).   *)
(* Parameters (tier, seed, number of random layouts) come from the JSON    *)
(* file named by VERIF_PARAMS.                                             *)
(***************************************************************************)
EXTENDS ThriftIdl, SequencesExt, FiniteSets, Json, IOUtils

Params == IF "VERIF_PARAMS" \in DOMAIN IOEnv THEN ndJsonDeserialize(IOEnv.VERIF_PARAMS)[1]
          ELSE [tier |-> "quick", seed |-> 20261002, rand_full |-> 4, rand_light |-> 1]
Tier == Params.tier
Seed == Params.seed % 65521

\* --------------------------------------------------------------------------- pools
bool == TBase("bool")    byte == TBase("byte")   i8 == TBase("i8")     i16 == TBase("i16")    i32 == TBase("i32")
i64 == TBase("i64")      dbl == TBase("double")  str == TBase("string") bin == TBase("binary") uuid == TBase("uuid")
Bases == [i \in 1..Len(BaseNames) |-> TBase(BaseNames[i])]
NoA == <<>>
F(id, attr, ty, name) == Field(id, attr, ty, name, None, NoA)
FD(id, attr, ty, name, d) == Field(id, attr, ty, name, Some(d), NoA)

A1 == <<Ann("pilota.name", Lit("renamed"))>>
A2 == <<Ann("pilota.rust_type", Lit("btree")), Ann("other.key_1", Lit(""))>>
A3 == <<Ann("go.tag", Lit("json:\\\"id\\\" split:\\\"type=tenant\\\"")), Ann("pilota.rust_wrapper_arc", Lit("true")),
        Ann("_k", LitD("it's"))>>

\* integers by lexical class (text, 64-bit value in decimal, class)
IntLex == << CInt(0), CInt(1), CInt(-1), CInt(127), CInt(2147483647),
             CIntT("-2147483648", "-2147483648", "i32min"),
             CIntT("9223372036854775807", "9223372036854775807", "i64max"),
             CIntT("-9223372036854775807", "-9223372036854775807", "i64min+1"),
             CIntT("0x1F", "31", "hex"), CIntT("0xff", "255", "hex"), CIntT("-0x10", "-16", "neghex"),
             CIntT("0x7fffffffffffffff", "9223372036854775807", "hexmax"), CIntT("007", "7", "leading-zeros"),
             \* the ends of the lexical space: the most negative i64 and the explicit plus sign of the Apache IntConstant
             CIntT("-9223372036854775808", "-9223372036854775808", "i64min"),
             CIntT("+5", "5", "plus") >>
DoubleLex == << CDouble("1.5", "plain"), CDouble("-2.5", "neg"), CDouble("0.0", "zero"), CDouble("1e5", "exp"),
                CDouble("1E-5", "exp-neg"), CDouble("-1.25e10", "frac-exp"), CDouble(".5", "no-int-part"),
                CDouble("+2.5", "plus"), CDouble("1e+5", "exp-plus"), CDouble("3.", "no-frac-part") >>

\* literal contents: plain, empty, escapes, the other quote, text that looks like comments / separators / IDL
LitPool == << Lit(""), Lit("hello"), Lit("hello world"), Lit("a\\\"b"), Lit("a\\'b"), LitS("say \"hi\""), LitD("it's"),
              Lit("line\\nbreak"), Lit("back\\\\slash"), Lit("// not a comment"), Lit("/* nor this */"), Lit("# nor this"),
              Lit("a,b;c"), Lit("{[(<>)]}"), Lit("1: optional i32 x"), Lit(" lead and trail "), Lit("$<0||$>=100"),
              LitX("tab\\tstop", "any", "escape-t") >>

\* identifiers that merely begin with a keyword of the IDL (or are one letter away from it)
KwIdents == << "trueValue", "falsey", "true_", "false1", "optionalFoo", "required_id", "optional_", "requiredX",
               "structure", "unionize", "exceptional", "enumX", "services", "typedefs", "constant", "includes", "namespaced",
               "i32x", "i8x", "i16_", "i64s", "boolean", "bytes", "binary_", "doubles", "stringy", "uuid4",
               "listing", "mapper", "setter", "voidness", "oneway_", "onewayX", "throwsE", "extendsX", "cpp_type_" >>

\* --------------------------------------------------------------------------- full documents
DocEmpty == Doc("empty", "full", <<>>)

DocHeaders == Doc("headers", "full",
  << Include(Lit("base.thrift")), Include(Lit("../dir/other.thrift")), CppInclude(Lit("<vector>")),
     Namespace("go", "x"), Namespace("rs", "a.b.c"), Namespace("py", "p.q"), Namespace("java", "com.x.y"),
     Namespace("*", "star.ns"), Namespace("rs", "second.rs"), Struct("Tail", <<>>, NoA) >>)

DocTypedefs == Doc("typedefs", "full",
  << Typedef(bool, "B", NoA), Typedef(byte, "By", NoA), Typedef(i8, "I8", A1), Typedef(i16, "I16", NoA), Typedef(i32, "I32", NoA),
     Typedef(i64, "I64", NoA), Typedef(dbl, "D", NoA), Typedef(str, "S", A2), Typedef(bin, "Bin", NoA), Typedef(uuid, "U", NoA),
     Typedef(TList(i32), "L", NoA), Typedef(TSet(str), "St", A1), Typedef(TMap(str, i64), "M", NoA),
     Typedef(TList(TMap(str, TSet(i32))), "Deep", NoA), Typedef(TMap(TList(i8), TMap(i16, bin)), "Deep2", A3),
     Typedef(TPath("Deep"), "Alias", NoA), Typedef(TPath("base.Base"), "Q", NoA) >>)

DocConstScalars == Doc("const-scalars", "full",
  << Const(i32, "zero", CInt(0)), Const(i32, "neg", CInt(-42)), Const(i64, "big", IntLex[7]), Const(i32, "hex", IntLex[9]),
     Const(bool, "t", CBool(TRUE)), Const(bool, "f", CBool(FALSE)), Const(bool, "one", CInt(1)),
     Const(dbl, "d1", DoubleLex[1]), Const(dbl, "d2", DoubleLex[6]), Const(dbl, "d3", CInt(3)),
     Const(str, "s1", CStr(Lit("hello world"))), Const(str, "s2", CStr(LitS("say \"hi\""))), Const(bin, "b1", CStr(Lit(""))),
     Const(TPath("Color"), "c1", CPath("Color.RED")), Const(TPath("Color"), "c2", CInt(2)),
     Const(TPath("base.Limit"), "c3", CPath("base.LIMIT")), Const(i32, "c4", CPath("zero")) >>)

DocConstContainers == Doc("const-containers", "full",
  << Const(TList(i32), "l0", CList(<<>>)), Const(TList(i32), "l3", CList(<<CInt(1), CInt(2), CInt(3)>>)),
     Const(TSet(str), "s2", CList(<<CStr(Lit("a")), CStr(Lit("b"))>>)),
     Const(TMap(str, i32), "m0", CMap(<<>>)), Const(TMap(str, i32), "m2", CMap(<< <<CStr(Lit("a")), CInt(1)>>, <<CStr(Lit("b")), CInt(2)>> >>)),
     Const(TList(TList(i32)), "ll", CList(<<CList(<<CInt(1)>>), CList(<<CInt(2), CInt(3)>>), CList(<<>>)>>)),
     Const(TMap(i32, TMap(i32, TList(i32))), "mm", CMap(<< <<CInt(1), CMap(<< <<CInt(2), CList(<<CInt(3)>>)>> >>)>> >>)),
     Const(TList(TMap(str, dbl)), "lm", CList(<<CMap(<< <<CStr(Lit("x")), DoubleLex[1]>> >>), CMap(<<>>)>>)),
     Const(TMap(TPath("Color"), TList(bool)), "me", CMap(<< <<CPath("Color.RED"), CList(<<CBool(TRUE), CBool(FALSE)>>)>>, <<CInt(2), CList(<<>>)>> >>)),
     Const(TPath("Point"), "lit", CMap(<< <<CStr(Lit("x")), CInt(1)>>, <<CStr(Lit("tags")), CList(<<CStr(Lit("t"))>>)>>,
                                         <<CStr(Lit("inner")), CMap(<< <<CStr(Lit("y")), DoubleLex[2]>> >>)>> >>)) >>)

DocEnums == Doc("enums", "full",
  << Enum("Plain", <<EnumVal("A", None, NoA), EnumVal("B", None, NoA), EnumVal("C", None, NoA)>>, NoA),
     Enum("Valued", <<EnumVal("ZERO", Some(CInt(0)), NoA), EnumVal("ONE", Some(CInt(1)), A1), EnumVal("NEG", Some(CInt(-1)), NoA),
                      EnumVal("HEX", Some(IntLex[9]), NoA), EnumVal("MAX", Some(CInt(2147483647)), A2), EnumVal("Implicit", None, A1)>>, A1),
     Enum("One", <<EnumVal("only", Some(CInt(7)), NoA)>>, A3),
     Struct("AfterEnum", <<>>, NoA) >>)

DocStruct == Doc("struct", "full",
  << Struct("Empty", <<>>, NoA),
     Struct("Ids", <<F(1, "default", i32, "a"), F(2, "required", str, "b"), F(15, "optional", bool, "c"), F(16, "default", i64, "d"),
                     F(17, "required", dbl, "e"), F(127, "optional", bin, "f"), F(128, "default", byte, "g"), F(300, "required", i8, "h"),
                     F(32767, "optional", i16, "i"), F(4, "default", uuid, "j")>>, NoA),
     Struct("Rich", <<Field(1, "required", str, "LogID", Some(CStr(Lit("xxx"))), A2),
                      Field(2, "optional", TList(TPath("Item")), "items", Some(CList(<<>>)), NoA),
                      Field(3, "default", TMap(str, TList(i32)), "m", Some(CMap(<< <<CStr(Lit("k")), CList(<<CInt(1), CInt(2)>>)>> >>)), A1),
                      Field(4, "optional", TPath("Color"), "color", Some(CPath("Color.RED")), NoA),
                      Field(5, "default", TPath("base.Base"), "Base", None, A3),
                      Field(6, "optional", dbl, "ratio", Some(DoubleLex[6]), NoA),
                      Field(7, "required", bool, "flag", Some(CBool(TRUE)), NoA),
                      Field(255, "optional", TSet(TPath("Rich")), "self_", None, NoA)>>, A2) >>)

DocUnionExc == Doc("union-exception", "full",
  << Union("U", <<F(1, "default", i32, "a"), F(2, "default", str, "b"), F(3, "default", TList(TPath("U")), "c")>>),
     Union("U1", <<F(1, "default", TPath("U"), "only")>>),
     Exception("E", <<F(1, "default", i32, "code"), FD(2, "optional", str, "msg", CStr(Lit("oops"))), Field(3, "required", TMap(str, str), "ctx", None, A1)>>),
     Exception("E0", <<>>) >>)

Req == F(1, "default", TPath("Req"), "req")
DocService == Doc("service", "full",
  << Service("Empty", None, <<>>),
     Service("Base", None, <<Fn(FALSE, TVoid, "ping", <<>>, <<>>, NoA)>>),
     Service("Svc", Some("base.Base"),
             << Fn(FALSE, TPath("Resp"), "call", <<Req>>, <<>>, NoA),
                Fn(TRUE, TVoid, "fire", <<F(1, "default", i32, "a"), F(2, "optional", str, "b")>>, <<>>, NoA),
                Fn(FALSE, TList(TMap(str, i64)), "many", <<Field(1, "required", TSet(i32), "ids", None, A1), FD(2, "default", i32, "limit", CInt(10))>>,
                   <<F(1, "default", TPath("E"), "e"), F(2, "optional", TPath("base.E2"), "e2")>>, A2),
                Fn(FALSE, i32, "annotated", <<>>, <<>>, A3),
                Fn(FALSE, TVoid, "thrower", <<>>, <<F(1, "default", TPath("E"), "err")>>, NoA) >>),
     Service("Child", Some("Svc"), <<Fn(FALSE, str, "name", <<>>, <<>>, NoA)>>) >>)

\* every kind of declaration once, interleaved, to observe the order of declarations
DocMixed == Doc("mixed", "full",
  << Namespace("rs", "mixed.pkg"), Include(Lit("base.thrift")),
     Const(i32, "K", CInt(5)), Typedef(TList(TPath("S")), "SList", NoA),
     Enum("Color", <<EnumVal("RED", Some(CInt(1)), NoA), EnumVal("GREEN", None, NoA)>>, NoA),
     Struct("S", <<FD(1, "default", TPath("Color"), "c", CPath("Color.RED")), F(2, "optional", TPath("SList"), "next")>>, NoA),
     Namespace("go", "late.ns"),
     Service("V", None, <<Fn(FALSE, TPath("S"), "get", <<F(1, "default", i32, "id")>>, <<F(1, "default", TPath("X"), "x")>>, NoA)>>),
     Union("Un", <<F(1, "default", TPath("S"), "s")>>), Exception("X", <<F(1, "default", str, "m")>>),
     Const(TPath("S"), "DEFAULT_S", CMap(<< <<CStr(Lit("c")), CInt(1)>> >>)), Typedef(TPath("V"), "type", NoA),
     Struct("self", <<F(1, "default", TPath("type"), "match"), F(2, "default", i32, "async")>>, NoA) >>)

\* keyword-prefixed identifiers in positions where the as-built parser is known to cope, laid out fully
DocKwMixed == Doc("kw-mixed", "full",
  << Typedef(TPath("structure"), "constant", NoA),
     Struct("services", <<F(1, "default", TPath("i32x"), "optionalFoo"), F(2, "required", TPath("listing"), "required_id"),
                          F(3, "optional", TMap(TPath("mapper"), TPath("setter")), "trueValue")>>, NoA),
     Enum("enumX", <<EnumVal("trueValue", None, NoA), EnumVal("falsey", Some(CInt(1)), NoA)>>, NoA),
     Service("extendsX", Some("includes"), <<Fn(FALSE, TPath("voidness"), "oneway_", <<F(1, "default", TPath("stringy"), "throwsE")>>, <<>>, NoA),
                                            Fn(TRUE, TVoid, "onewayX", <<>>, <<>>, NoA),
                                            Fn(FALSE, TPath("oneway_"), "voidness", <<>>, <<>>, NoA)>>) >>)

FullDocs == << DocEmpty, DocHeaders, DocTypedefs, DocConstScalars, DocConstContainers, DocEnums, DocStruct, DocUnionExc,
               DocService, DocMixed, DocKwMixed >>

\* --------------------------------------------------------------------------- light documents (systematic products)
S1(name, f) == Struct(name, <<f>>, NoA)
Positions == << "fieldtype", "argtype", "rettype", "throwtype", "tdtarget", "consttype", "listelemtype", "mapkeytype",
                "fieldname", "argname", "constname", "tdname", "structname", "enumname", "enummember", "servicename", "fnname",
                "constvalue", "default", "listelem", "mapkey", "mapvalue", "extends", "nspath", "qualifier", "qualified", "annkey" >>
KwDoc(id, pos) ==
  Doc("kw:" \o pos \o ":" \o id, "light",
    CASE pos = "fieldtype" -> <<S1("S", F(1, "default", TPath(id), "f"))>>
      [] pos = "argtype" -> <<Service("V", None, <<Fn(FALSE, TVoid, "m", <<F(1, "default", TPath(id), "a")>>, <<>>, NoA)>>)>>
      [] pos = "rettype" -> <<Service("V", None, <<Fn(FALSE, TPath(id), "m", <<>>, <<>>, NoA)>>)>>
      [] pos = "throwtype" -> <<Service("V", None, <<Fn(FALSE, TVoid, "m", <<>>, <<F(1, "default", TPath(id), "e")>>, NoA)>>)>>
      [] pos = "tdtarget" -> <<Typedef(TPath(id), "T", NoA)>>
      [] pos = "consttype" -> <<Const(TPath(id), "c", CInt(1))>>
      [] pos = "listelemtype" -> <<S1("S", F(1, "default", TList(TPath(id)), "f"))>>
      [] pos = "mapkeytype" -> <<S1("S", F(1, "default", TMap(TPath(id), TPath(id)), "f"))>>
      [] pos = "fieldname" -> <<S1("S", F(1, "default", i32, id))>>
      [] pos = "argname" -> <<Service("V", None, <<Fn(FALSE, TVoid, "m", <<F(1, "default", i32, id)>>, <<>>, NoA)>>)>>
      [] pos = "constname" -> <<Const(i32, id, CInt(1))>>
      [] pos = "tdname" -> <<Typedef(i32, id, NoA)>>
      [] pos = "structname" -> <<Struct(id, <<>>, NoA)>>
      [] pos = "enumname" -> <<Enum(id, <<EnumVal("A", None, NoA)>>, NoA)>>
      [] pos = "enummember" -> <<Enum("E", <<EnumVal(id, None, NoA), EnumVal(id \o "2", Some(CInt(2)), NoA)>>, NoA)>>
      [] pos = "servicename" -> <<Service(id, None, <<>>)>>
      [] pos = "fnname" -> <<Service("V", None, <<Fn(FALSE, TVoid, id, <<>>, <<>>, NoA)>>)>>
      [] pos = "constvalue" -> <<Const(TPath("Foo"), "c", CPath(id))>>
      [] pos = "default" -> <<S1("S", FD(1, "default", TPath("Foo"), "f", CPath(id)))>>
      [] pos = "listelem" -> <<Const(TList(TPath("Foo")), "c", CList(<<CPath(id), CPath(id)>>))>>
      [] pos = "mapkey" -> <<Const(TMap(TPath("Foo"), i32), "c", CMap(<< <<CPath(id), CInt(1)>> >>))>>
      [] pos = "mapvalue" -> <<Const(TMap(i32, TPath("Foo")), "c", CMap(<< <<CInt(1), CPath(id)>> >>))>>
      [] pos = "extends" -> <<Service("V", Some(id), <<>>)>>
      [] pos = "nspath" -> <<Namespace("go", id)>>
      [] pos = "qualifier" -> <<Const(TPath(id \o ".T"), "c", CPath(id \o ".X"))>>
      [] pos = "qualified" -> <<Const(TPath("m." \o id), "c", CPath("m." \o id))>>
      [] pos = "annkey" -> <<Typedef(i32, "T", <<Ann(id, Lit("v"))>>)>>)
KwDocs == Flat([i \in 1..Len(KwIdents) |-> [p \in 1..Len(Positions) |-> KwDoc(KwIdents[i], Positions[p])]])

\* requiredness x (type, default literal): every literal kind, incl. nested list / map literals
TypedDefaults ==
  << <<bool, None>>, <<bool, Some(CBool(TRUE))>>, <<bool, Some(CBool(FALSE))>>, <<bool, Some(CInt(0))>>, <<bool, Some(CInt(1))>>,
     <<byte, Some(CInt(5))>>, <<i8, Some(CInt(-1))>>, <<i16, Some(CInt(300))>>, <<i32, Some(IntLex[6])>>, <<i64, Some(IntLex[7])>>,
     <<i32, Some(IntLex[9])>>, <<dbl, Some(DoubleLex[1])>>, <<dbl, Some(CInt(2))>>, <<dbl, Some(DoubleLex[5])>>,
     <<str, Some(CStr(Lit("x")))>>, <<str, Some(CStr(Lit("")))>>, <<bin, Some(CStr(Lit("bytes")))>>, <<uuid, None>>,
     <<TList(i32), Some(CList(<<CInt(1), CInt(2)>>))>>, <<TSet(str), Some(CList(<<CStr(Lit("a"))>>))>>, <<TList(str), Some(CList(<<>>))>>,
     <<TMap(str, i32), Some(CMap(<< <<CStr(Lit("a")), CInt(1)>> >>))>>, <<TMap(str, i32), Some(CMap(<<>>))>>,
     <<TList(TMap(str, TList(i32))), Some(CList(<<CMap(<< <<CStr(Lit("k")), CList(<<CInt(1)>>)>> >>)>>))>>,
     <<TPath("Color"), Some(CPath("Color.RED"))>>, <<TPath("Color"), Some(CInt(1))>>, <<TPath("Alias"), Some(CPath("SOME_CONST"))>>,
     <<TPath("Point"), Some(CMap(<< <<CStr(Lit("x")), CInt(1)>>, <<CStr(Lit("y")), CInt(2)>> >>))>>, <<TPath("inc.Other"), None>> >>
DefaultDoc(a, i) ==
  LET td == TypedDefaults[i] IN
  Doc("default:" \o Attrs[a] \o ":" \o ToString(i), "light",
      << Struct("S", <<Field(1, Attrs[a], td[1], "f", td[2], NoA), Field(2, Attrs[a], td[1], "g", td[2], A1)>>, NoA),
         Service("V", None, <<Fn(FALSE, td[1], "m", <<Field(1, Attrs[a], td[1], "a", td[2], NoA)>>,
                                 <<Field(1, Attrs[a], td[1], "e", td[2], NoA)>>, NoA)>>) >>)
DefaultDocs == Flat([a \in 1..3 |-> [i \in 1..Len(TypedDefaults) |-> DefaultDoc(a, i)]])

\* lexical classes of numbers x position
IntDocs == Flat([i \in 1..Len(IntLex) |->
  << Doc("int:const:" \o IntLex[i].lc, "light", <<Const(i64, "c", IntLex[i]), Const(TList(i64), "l", CList(<<IntLex[i], IntLex[i]>>))>>),
     Doc("int:default:" \o IntLex[i].lc, "light", <<S1("S", FD(1, "default", i64, "f", IntLex[i]))>>),
     Doc("int:enum:" \o IntLex[i].lc, "light", <<Enum("E", <<EnumVal("A", Some(IntLex[i]), NoA), EnumVal("B", None, NoA)>>, NoA)>>) >>])
DoubleDocs == Flat([i \in 1..Len(DoubleLex) |->
  << Doc("double:const:" \o DoubleLex[i].lc, "light", <<Const(dbl, "c", DoubleLex[i]), Const(TMap(dbl, dbl), "m", CMap(<< <<DoubleLex[i], DoubleLex[i]>> >>))>>),
     Doc("double:default:" \o DoubleLex[i].lc, "light", <<S1("S", FD(1, "default", dbl, "f", DoubleLex[i]))>>) >>])

\* literal content x position
LitDocs == Flat([i \in 1..Len(LitPool) |->
  << Doc("lit:include:" \o ToString(i), "light", <<Include(LitPool[i]), Struct("T", <<>>, NoA)>>),
     Doc("lit:const:" \o ToString(i), "light", <<Const(str, "c", CStr(LitPool[i])), Const(TList(str), "l", CList(<<CStr(LitPool[i]), CStr(LitPool[i])>>))>>),
     Doc("lit:default:" \o ToString(i), "light", <<S1("S", FD(1, "default", str, "f", CStr(LitPool[i])))>>),
     Doc("lit:annotation:" \o ToString(i), "light", <<S1("S", Field(1, "default", str, "f", None, <<Ann("k", LitPool[i]), Ann("k.2", LitPool[i])>>))>>) >>])

\* base type x container shape
ShapeDocs == [b \in 1..Len(Bases) |->
  Doc("shape:" \o BaseNames[b], "light",
      << Struct("S", <<F(1, "default", Bases[b], "p"), F(2, "default", TList(Bases[b]), "l"), F(3, "default", TSet(Bases[b]), "s"),
                       F(4, "default", TMap(Bases[b], str), "mk"), F(5, "default", TMap(str, Bases[b]), "mv"),
                       F(6, "default", TList(TSet(TMap(Bases[b], Bases[b]))), "deep")>>, NoA),
         Typedef(Bases[b], "T", NoA), Const(TList(Bases[b]), "c", CList(<<>>)),
         Service("V", None, <<Fn(FALSE, Bases[b], "m", <<F(1, "default", Bases[b], "a")>>, <<>>, NoA)>>) >>)]

LightDocs == KwDocs \o DefaultDocs \o IntDocs \o DoubleDocs \o LitDocs \o ShapeDocs
Docs == FullDocs \o LightDocs

\* --------------------------------------------------------------------------- layouts per document
Lay(vary, at, c, lay) == [vary |-> vary, at |-> at, c |-> c, lay |-> lay]

\* blank kinds tried one at a time: the five kinds of the design (+ nothing); every pool entry in the thorough tier
OneGaps == IF Tier = "thorough" THEN 0..NGap ELSE BasicGaps

GapVariations(T, base, tag) ==
  LET n == Len(T)
      kinds == SetToSeq(OneGaps)
      K == Len(kinds)
      all == [m \in 1..((n + 1) * K) |-> LET j == ((m - 1) \div K) + 1  g == kinds[((m - 1) % K) + 1]
                                         IN Lay(tag, j, g, WithGap(T, base, j, g))]
      eofs == [e \in 1..Len(EofPool) |-> Lay(tag, n + 1, 99 + e, WithGap(T, base, n + 1, 99 + e))]
  IN SelectSeq(all \o eofs, LAMBDA x : x.lay.g[x.at] # base.g[x.at] /\ Unamb(T, x.lay))

ChVariations(T, base) ==
  LET n == Len(T)
      all == [m \in 1..(3 * n) |-> LET i == ((m - 1) \div 3) + 1  c == (m - 1) % 3
                                   IN Lay(IF T[i].c = "s" THEN "sep" ELSE "quote", i, c, WithCh(T, base, i, c))]
  IN SelectSeq(all, LAMBDA x : /\ T[x.at].c \in {"s", "l"}
                               /\ (T[x.at].c = "l" => x.c < 2)
                               /\ x.lay.ch[x.at] = x.c /\ x.c # base.ch[x.at])

\* thorough tier: every pair of neighbouring blanks, and every separator slot together with the blanks on both sides,
\* over the basic kinds (interactions of adjacent choice points, e.g. an omitted separator in front of a comment)
PairVariations(T, base) ==
  LET n == Len(T)
      kinds == SetToSeq(BasicGaps)
      K == Len(kinds)
      gg == [m \in 1..(n * K * K) |->
               LET j == ((m - 1) \div (K * K)) + 1  a == kinds[(((m - 1) \div K) % K) + 1]  b == kinds[((m - 1) % K) + 1]
               IN Lay("pair", j, 10 * a + b, [g |-> [base.g EXCEPT ![j] = a, ![j + 1] = b], ch |-> base.ch])]
      sg == [m \in 1..(n * 3 * K * K) |->
               LET i == ((m - 1) \div (3 * K * K)) + 1  cc == ((m - 1) \div (K * K)) % 3
                   a == kinds[(((m - 1) \div K) % K) + 1]  b == kinds[((m - 1) % K) + 1]
               IN Lay("pair", i, 100 * cc + 10 * a + b, [g |-> [base.g EXCEPT ![i] = a, ![i + 1] = b], ch |-> [base.ch EXCEPT ![i] = cc]])]
  IN SelectSeq(gg, LAMBDA x : x.lay.g[x.at] # base.g[x.at] /\ x.lay.g[x.at + 1] # base.g[x.at + 1] /\ Unamb(T, x.lay))
       \o SelectSeq(sg, LAMBDA x : T[x.at].c = "s" /\ x.lay.ch[x.at] # base.ch[x.at] /\ Unamb(T, x.lay))

Randoms(T, d, k) == [r \in 1..k |-> Lay("random", 0, r, Random(T, Seed, d, r))]

Layouts(d, T, mode) ==
  <<Lay("default", 0, 0, Default(T)), Lay("tight", 0, 0, Tight(T))>>
    \o (IF mode = "full" THEN GapVariations(T, Default(T), "gap") \o ChVariations(T, Default(T)) ELSE <<>>)
    \o (IF mode = "full" /\ Tier = "thorough" THEN PairVariations(T, Default(T)) ELSE <<>>)
    \o Randoms(T, d, IF mode = "full" THEN Params.rand_full ELSE Params.rand_light)

Case(d) ==
  LET doc == Docs[d]
      T == Toks(doc)
      lays == Layouts(d, T, doc.mode)
  IN IF Assert(\A i \in 1..Len(lays) : Unamb(T, lays[i].lay), <<"printer ambiguity in document", d, doc.name>>)
     THEN [doc |-> d, name |-> doc.name, mode |-> doc.mode, toks |-> T, exp |-> Exp(doc),
           layouts |-> [i \in 1..Len(lays) |-> [l |-> i - 1, vary |-> lays[i].vary, at |-> lays[i].at, c |-> lays[i].c,
                                                p |-> Pieces(T, lays[i].lay)]]]
     ELSE [doc |-> d]

ASSUME ndJsonSerialize(IOEnv.VERIF_OUT, [d \in 1..Len(Docs) |-> Case(d)])
ASSUME PrintT(<<"IDL", Len(Docs), Len(FullDocs)>>)
=============================================================================
