---------------------------- MODULE ThriftTypes ----------------------------
(***************************************************************************)
(* Thrift wire-level vocabulary shared by the binary and compact specs:    *)
(* type codes, message types and the *value tree* datatype.                *)
(*                                                                         *)
(* A value tree is a record whose shape depends on its kind `k`:           *)
(*   leaf      [k |-> "bool"|"i8"|"i16"|"i32"|"i64"|"double"|"binary"|     *)
(*                    "string"|"uuid",  v |-> <<ints>>]                     *)
(*             bool: <<0|1>>; i8: <<byte 0..255>>; i16/i32/i64: limb int;  *)
(*             double: the 8 IEEE-754 bytes, most significant first;       *)
(*             binary/string: the bytes; uuid: 16 bytes.                   *)
(*   struct    [k |-> "struct", fs |-> << [id |-> Int, x |-> tree], ...>>] *)
(*   list/set  [k |-> "list"|"set", et |-> ttype, es |-> <<tree, ...>>]    *)
(*   map       [k |-> "map", kt |-> ttype, vt |-> ttype,                    *)
(*                    kvs |-> << <<key tree, value tree>>, ... >>]          *)
(* Every leaf payload is a sequence of integers, so trees of different     *)
(* kinds can be compared by TLC without type clashes.                      *)
(***************************************************************************)
EXTENDS Integers, Sequences, Ints

\* TType codes (thrift/mod.rs TType; Apache TType)
T_STOP == 0   T_VOID == 1   T_BOOL == 2   T_I8 == 3    T_DOUBLE == 4  T_I16 == 6
T_I32 == 8    T_I64 == 10   T_BINARY == 11 T_STRUCT == 12 T_MAP == 13  T_SET == 14
T_LIST == 15  T_UUID == 16
ValueTTypes == {T_BOOL, T_I8, T_DOUBLE, T_I16, T_I32, T_I64, T_BINARY, T_STRUCT, T_MAP, T_SET, T_LIST, T_UUID}
\* codes that may appear on the wire in a type position (STOP only as field terminator;
\* VOID is in pilota's table and in the Apache TType enumeration)
KnownTTypes == ValueTTypes \cup {T_STOP, T_VOID}

\* compact-protocol type codes
CT_STOP == 0  CT_TRUE == 1  CT_FALSE == 2  CT_BYTE == 3  CT_I16 == 4  CT_I32 == 5  CT_I64 == 6
CT_DOUBLE == 7 CT_BINARY == 8 CT_LIST == 9 CT_SET == 10  CT_MAP == 11 CT_STRUCT == 12 CT_UUID == 13
KnownCTypes == 0..13

ToCompact(t) == CASE t = T_STOP -> CT_STOP [] t = T_BOOL -> CT_TRUE [] t = T_I8 -> CT_BYTE
                  [] t = T_I16 -> CT_I16 [] t = T_I32 -> CT_I32 [] t = T_I64 -> CT_I64
                  [] t = T_DOUBLE -> CT_DOUBLE [] t = T_BINARY -> CT_BINARY [] t = T_LIST -> CT_LIST
                  [] t = T_SET -> CT_SET [] t = T_MAP -> CT_MAP [] t = T_STRUCT -> CT_STRUCT
                  [] t = T_UUID -> CT_UUID [] OTHER -> -1
FromCompact(c) == CASE c = CT_STOP -> T_STOP [] c = CT_TRUE -> T_BOOL [] c = CT_FALSE -> T_BOOL
                  [] c = CT_BYTE -> T_I8 [] c = CT_I16 -> T_I16 [] c = CT_I32 -> T_I32 [] c = CT_I64 -> T_I64
                  [] c = CT_DOUBLE -> T_DOUBLE [] c = CT_BINARY -> T_BINARY [] c = CT_LIST -> T_LIST
                  [] c = CT_SET -> T_SET [] c = CT_MAP -> T_MAP [] c = CT_STRUCT -> T_STRUCT
                  [] c = CT_UUID -> T_UUID [] OTHER -> -1

\* message types
M_CALL == 1  M_REPLY == 2  M_EXCEPTION == 3  M_ONEWAY == 4
MessageTypes == 1..4

LeafKinds == {"bool", "i8", "i16", "i32", "i64", "double", "binary", "string", "uuid"}

TTypeOf(v) == CASE v.k = "bool" -> T_BOOL [] v.k = "i8" -> T_I8 [] v.k = "i16" -> T_I16
                [] v.k = "i32" -> T_I32 [] v.k = "i64" -> T_I64 [] v.k = "double" -> T_DOUBLE
                [] v.k = "binary" -> T_BINARY [] v.k = "string" -> T_BINARY [] v.k = "uuid" -> T_UUID
                [] v.k = "struct" -> T_STRUCT [] v.k = "list" -> T_LIST [] v.k = "set" -> T_SET
                [] v.k = "map" -> T_MAP

IsByteSeq(s) == \A i \in 1..Len(s) : s[i] \in 0..255

RECURSIVE WellTyped(_)
WellTyped(v) ==
  CASE v.k = "bool"   -> Len(v.v) = 1 /\ v.v[1] \in {0, 1}
    [] v.k = "i8"     -> Len(v.v) = 1 /\ v.v[1] \in 0..255
    [] v.k = "i16"    -> IsLimbInt(v.v, 16)
    [] v.k = "i32"    -> IsLimbInt(v.v, 32)
    [] v.k = "i64"    -> IsLimbInt(v.v, 64)
    [] v.k = "double" -> Len(v.v) = 8 /\ IsByteSeq(v.v)
    [] v.k = "uuid"   -> Len(v.v) = 16 /\ IsByteSeq(v.v)
    [] v.k \in {"binary", "string"} -> IsByteSeq(v.v)
    [] v.k = "struct" -> \A i \in 1..Len(v.fs) :
                            /\ v.fs[i].id \in -32768..32767
                            /\ WellTyped(v.fs[i].x)
    [] v.k \in {"list", "set"} -> \A i \in 1..Len(v.es) : TTypeOf(v.es[i]) = v.et /\ WellTyped(v.es[i])
    [] v.k = "map" -> \A i \in 1..Len(v.kvs) :
                            /\ TTypeOf(v.kvs[i][1]) = v.kt /\ WellTyped(v.kvs[i][1])
                            /\ TTypeOf(v.kvs[i][2]) = v.vt /\ WellTyped(v.kvs[i][2])

\* nesting depth (a leaf has depth 0; struct/list/set/map add one)
RECURSIVE MaxOver(_, _, _)
MaxOver(Op(_), s, i) == IF i > Len(s) THEN 0
                        ELSE LET a == Op(s[i])  b == MaxOver(Op, s, i + 1) IN IF a > b THEN a ELSE b
RECURSIVE Depth(_)
Depth(v) ==
  CASE v.k \in LeafKinds -> 0
    [] v.k = "struct" -> 1 + MaxOver(LAMBDA f : Depth(f.x), v.fs, 1)
    [] v.k \in {"list", "set"} -> 1 + MaxOver(Depth, v.es, 1)
    [] v.k = "map" -> 1 + MaxOver(LAMBDA p : LET a == Depth(p[1]) b == Depth(p[2]) IN IF a > b THEN a ELSE b, v.kvs, 1)

\* "string" and "binary" are the same wire type; a schema-less decoder returns "binary".
RECURSIVE Erase(_)
Erase(v) ==
  CASE v.k = "string" -> [k |-> "binary", v |-> v.v]
    [] v.k \in LeafKinds -> v
    [] v.k = "struct" -> [k |-> "struct", fs |-> [i \in 1..Len(v.fs) |-> [id |-> v.fs[i].id, x |-> Erase(v.fs[i].x)]]]
    [] v.k \in {"list", "set"} -> [k |-> v.k, et |-> v.et, es |-> [i \in 1..Len(v.es) |-> Erase(v.es[i])]]
    [] v.k = "map" -> [k |-> "map", kt |-> v.kt, vt |-> v.vt,
                       kvs |-> [i \in 1..Len(v.kvs) |-> <<Erase(v.kvs[i][1]), Erase(v.kvs[i][2])>>]]

\* concatenation of a sequence of byte strings
RECURSIVE Concat(_, _)
Concat(ss, i) == IF i > Len(ss) THEN <<>> ELSE ss[i] \o Concat(ss, i + 1)
Flat(ss) == Concat(ss, 1)
RECURSIVE SumLen(_, _)
SumLen(ss, i) == IF i > Len(ss) THEN 0 ELSE Len(ss[i]) + SumLen(ss, i + 1)

\* len bytes of value b
Fill(len, b) == [i \in 1..len |-> b]
\* len bytes 0,1,2,... mod 251 starting at s: a cheap non-constant payload
Ramp(len, s) == [i \in 1..len |-> (s + i) % 251]
=============================================================================
