#!/usr/bin/env python3
"""bin/seedsave.py <id> <worktree> <property> <needs> <caught-by JSON list> <note>: copy a confirmed seed (SEED/ of its worktree) to /verif/seeded/<id>/ with meta.json."""
import sys,json,os,shutil,subprocess
sid,wt,prop,needs,caught,note=sys.argv[1:7]
d=f'/verif/seeded/{sid}'; os.makedirs(d,exist_ok=True)
for f in os.listdir(f'{wt}/SEED'):
    src=f'{wt}/SEED/{f}'
    if f=='demo':
        shutil.copytree(src,f'{d}/demo',dirs_exist_ok=True,ignore=shutil.ignore_patterns('target','Cargo.lock'))
    elif os.path.isfile(src): shutil.copy(src,d)
base=subprocess.run(['git','-C',wt,'rev-parse','--short','HEAD'],capture_output=True,text=True).stdout.strip()
json.dump({"id":sid,"breaks_property":prop,"base_commit":base,"needs_to_manifest":needs,
 "confirmed":"bin/seedconfirm: demonstration fails with the change, passes without it; cargo test --workspace --lib --bins passes with it (see confirm.log)",
 "checked_with":"bin/seedtest <patch> <props>","caught_by":json.loads(caught),"note":note},open(f'{d}/meta.json','w'),indent=1)
print(os.listdir(d))
