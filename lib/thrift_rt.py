"""Shared machinery of the Thrift runtime checks (C01, C03, C04, C07, C11): TLC vector
generation, lock-step model checking + transition-table emission, replay through `drive`, and
trace validation of recorded executions."""
import json, os, re, shutil, tempfile, time
import common as c
import walks as walks_mod

INIT_STATE = {"w": {"last": 0, "stack": [], "pend": []}, "l": {"last": 0, "stack": [], "pend": []},
              "r": {"last": 0, "stack": [], "pv": [], "pid": []}, "fr": []}


def vectors(tier, vset="universe"):
    path, st = c.cached_tlc_file(f"vectors-{vset}-{tier}", "MCVectors", [tier, vset],
                                 {"VERIF_TIER": tier, "VERIF_SET": vset}, timeout=3600)
    return path, st


def wire_cases(tier):
    return c.cached_tlc_file("wire-" + tier, "MCWire", [tier], {"VERIF_TIER": tier}, timeout=1800)


def drive_wire(tier):
    path, st = wire_cases(tier)
    out = os.path.join(c.OUT, f"wire_result-{tier}-{os.getpid()}.ndjson")
    rc, o, dt = c.run([c.hbin("drive"), "wire", path, out], timeout=900, driver="drive wire")
    if rc != 0:
        c.driver_failed("drive wire", rc, o)
    rows = c.read_ndjson(out)
    os.remove(out)
    summary = [r for r in rows if r["kind"] == "summary"][0]
    mism = [r for r in rows if r["kind"] == "mismatch"]
    for m in mism:
        m["vkind"] = m.get("buf", "-")
    sample = c.read_ndjson(path)[:3]
    return summary, mism, st, sample


def run_watched(cmd, progress_file, stall=90, total=3600):
    """Run a driver that appends to `progress_file` as it goes; kill it when the file has not grown for `stall` seconds (the code
    under test hangs) or after `total` seconds.  Returns (rc, output, hung)."""
    import subprocess, tempfile
    with tempfile.TemporaryFile() as log:
        p = subprocess.Popen(cmd, stdout=log, stderr=subprocess.STDOUT, env=dict(os.environ, CARGO_NET_OFFLINE="true"))
        t0 = last = time.time()
        size = -1
        hung = False
        while True:
            try:
                p.wait(timeout=2)
                break
            except subprocess.TimeoutExpired:
                pass
            sz = os.path.getsize(progress_file) if os.path.exists(progress_file) else 0
            now = time.time()
            if sz != size:
                size, last = sz, now
            if now - last > stall or now - t0 > total:
                hung = True
                p.kill()
                p.wait()
                break
        log.seek(0)
        o = log.read().decode("utf-8", "replace")
    return p.returncode, o, hung


def drive_vectors(tier, vset="universe"):
    vec, st = vectors(tier, vset)
    out = os.path.join(c.OUT, f"vec_result-{tier}-{os.getpid()}.ndjson")
    # the code under test may abort the process: the vector in progress is recorded as a crash and the run resumes behind it
    start, crashes = 0, []
    while True:
        rc, o, hung = run_watched([c.hbin("drive"), "vectors", vec, out, str(start)], out, stall=90, total=3600)
        rows = c.read_ndjson(out) if os.path.exists(out) else []
        if rc == 0 and any(r["kind"] == "summary" for r in rows):
            break
        open_ = None
        for r in rows:
            if r["kind"] == "start":
                open_ = r
            elif r["kind"] == "done":
                open_ = None
        if open_ is None or len(crashes) > 200:
            c.driver_failed("drive vectors", rc, o)
        why = "hang: no vector finished for 90 s, process killed" if hung else o.strip()[-300:]
        if open_["vi"] == "seq":
            crashes.append({"kind": "mismatch", "vec": 0, "proto": "-", "buf": "-", "check": "seq-crash", "detail": why})
            nd = [r for r in rows if r["kind"] == "done"]
            rows.append({"kind": "summary", "vectors": len(nd), "evaluations": sum(r["evals"] for r in nd),
                         "mismatches": len([r for r in rows if r["kind"] == "mismatch"]) + len(crashes), "seq_len": 0, "zero_copy_nodes": sum(r["zc"] for r in nd)})
            break
        st = re.findall(r"VSTAGE stage=(\S+) proto=(\S+)", o)
        stage, proto = st[-1] if st else ("-", "-")
        if hung:
            # the stage marker is only printed by the panic hook: a hang is attributed to the vector, not to a stage
            stage, proto = "-", "-"
        crashes.append({"kind": "mismatch", "vec": open_["vec"], "proto": proto, "buf": "-", "check": ("hang" if hung else "crash") if stage == "-" else stage + "-crash", "detail": why})
        with open(out, "a") as f:
            f.write(json.dumps({"kind": "done", "vi": open_["vi"], "good": False, "evals": 1, "zc": 0}) + "\n")
        start = open_["vi"] + 1
        if len([x for x in crashes if x["check"] == "hang"]) >= 3:
            # every hang costs the stall time: three are reported, the vectors behind them stay unexamined in this run
            rows = c.read_ndjson(out)
            nd = [r for r in rows if r["kind"] == "done"]
            rows.append({"kind": "summary", "vectors": len(nd), "evaluations": sum(r["evals"] for r in nd), "stopped_after_hangs": True,
                         "mismatches": len([r for r in rows if r["kind"] == "mismatch"]) + len(crashes), "seq_len": 0, "zero_copy_nodes": sum(r["zc"] for r in nd)})
            break
    rows += crashes
    if os.path.exists(out):
        os.remove(out)
    summary = [r for r in rows if r["kind"] == "summary"][0]
    mism = [r for r in rows if r["kind"] == "mismatch"]
    byid = None
    if mism:
        byid = {v["id"]: v for v in c.read_ndjson(vec)}
        for m in mism:
            v = byid.get(m["vec"])
            if v is not None:
                m["value"] = v["v"] if len(json.dumps(v["v"])) < 3000 else {"k": v["v"]["k"], "note": "large"}
                m["vkind"] = v["v"]["k"]
    return summary, mism, st


def proto_model(tier):
    """Exhaustive TLC run of the lock-step model; emits the transition table (cached by spec text).
    The table (and the transition tour built from it) always comes from the quick constants; the
    thorough tier additionally explores the larger constants exhaustively (no emission)."""
    cfg = "MCThriftProto.cfg"
    key = c.spec_hash("MCThriftProto", "proto-table", cfg)
    d = os.path.join(c.OUT, "cache", f"proto-{tier}-{key}")
    stats_p = os.path.join(d, "_stats.json")
    if os.path.exists(stats_p):
        return d, json.load(open(stats_p))
    tmp = d + ".tmp"
    shutil.rmtree(tmp, ignore_errors=True)
    os.makedirs(tmp)
    res = c.tlc("MCThriftProto", cfg=cfg, env={"VERIF_EMIT_DIR": tmp}, workers=1, timeout=3 * 3600, xmx="8g", tag="proto-" + tier)
    c.tlc_must_pass(res, "ThriftProto exhaustive " + tier)
    st = {"generated": res["generated"], "distinct": res["distinct"], "dt": res["dt"], "cfg": cfg}
    shutil.rmtree(d, ignore_errors=True)
    os.rename(tmp, d)
    json.dump(st, open(stats_p, "w"))
    return d, st


def proto_model_big():
    key = c.spec_hash("MCThriftProto", "proto-big")
    p = os.path.join(c.OUT, "cache", f"proto-big-{key}.json")
    if os.path.exists(p):
        return json.load(open(p))
    res = c.tlc("MCThriftProto", cfg="MCThriftProtoT.cfg", workers=8, timeout=3 * 3600, xmx="12g", tag="proto-big")
    c.tlc_must_pass(res, "ThriftProto exhaustive (thorough constants)")
    st = {"generated": res["generated"], "distinct": res["distinct"], "dt": res["dt"], "cfg": "MCThriftProtoT.cfg"}
    json.dump(st, open(p, "w"))
    return st


def proto_walks(tier, seed):
    d, st = proto_model(tier)
    if tier == "thorough":
        big = proto_model_big()
        st = dict(st)
        st["thorough_model"] = big
    wp = os.path.join(d, f"_walks-{seed}.ndjson")
    meta = os.path.join(d, f"_walks-{seed}.json")
    if not os.path.exists(meta):
        table = walks_mod.load_table(d)
        ws, total = walks_mod.tours(table, walks_mod.key(INIT_STATE), max_len=80, seed=seed,
                                    extra_random=200 if tier == "quick" else 2000)
        walks_mod.write_walks(ws, wp)
        json.dump({"walks": len(ws), "transitions": total, "steps": sum(len(w) for w in ws)}, open(meta, "w"))
    return wp, json.load(open(meta)), st


def drive_walks(tier, seed):
    wp, meta, st = proto_walks(tier, seed)
    out = os.path.join(c.OUT, f"walks_result-{tier}-{os.getpid()}.ndjson")
    rc, o, dt = c.run([c.hbin("drive"), "walks", wp, out], timeout=900, driver="drive walks")
    if rc != 0:
        c.driver_failed("drive walks", rc, o)
    rows = c.read_ndjson(out)
    os.remove(out)
    summary = [r for r in rows if r["kind"] == "summary"][0]
    mism = [r for r in rows if r["kind"] == "mismatch"]
    sample = None
    with open(wp) as f:
        sample = json.loads(f.readline())
    return summary, mism, meta, st, sample


def split_runs(lines):
    runs, cur = [], []
    for l in lines:
        if 'reset"' in l:
            j = json.loads(l)
            if j.get("op") in ("reset", "areset", "greset", "sreset"):
                if cur:
                    runs.append(cur)
                cur = [l]
                continue
        cur.append(l)
    if cur:
        runs.append(cur)
    return runs


def validate_trace(path, module="ThriftTrace", max_rejects=8, timeout=1800):
    """TLC trace validation.  Returns (events_validated, runs_validated, rejections) where each
    rejection = dict(line, event, run_lines).  After a rejection the offending run is cut out and
    the rest is validated again, so one finding does not hide the others."""
    raw = open(path, "rb").read()
    # the verdict is a function of (recorded events, specification): cached on exactly that
    import hashlib
    ck = hashlib.sha256(raw).hexdigest()[:24] + "-" + c.spec_hash(module, "trace")[:16]
    cpath = os.path.join(c.OUT, "cache", f"traceval-{module}-{ck}.json")
    if os.path.exists(cpath):
        j = json.load(open(cpath))
        return j["events"], j["runs"], j["rejections"], j["crashed"]
    res4 = _validate_trace(raw.decode("utf-8", "replace"), module, max_rejects, timeout)
    os.makedirs(os.path.dirname(cpath), exist_ok=True)
    json.dump({"events": res4[0], "runs": res4[1], "rejections": res4[2], "crashed": res4[3]}, open(cpath, "w"))
    return res4


CHUNK_LINES = 60000


def _validate_chunk(args):
    """One TLC trace-validation process over a list of runs; returns (events, runs_left, rejections)."""
    runs, module, max_rejects, timeout, tag = args
    runs = list(runs)
    rejections = []
    total_events = 0
    for _ in range(max_rejects + 1):
        cur = os.path.join(c.OUT, f"trace-val-{os.getpid()}-{tag}.ndjson")
        flat = [l for r in runs for l in r]
        if not flat:
            break
        open(cur, "w").write("\n".join(flat) + "\n")
        res = c.tlc(module, env={"VERIF_TRACE": cur}, workers=1, timeout=timeout, deque=True, tag=f"trace{tag}")
        os.remove(cur)
        if res["ok"]:
            total_events = len(flat)
            break
        if "REJECTED" not in res["out"]:
            raise c.ToolError("trace validation failed without a rejection:\n" + res["out"][-4000:])
        m = re.search(r'"REJECTED",\s*(\d+)', res["out"])
        d = int(m.group(1))
        # locate the run containing line d (1-based)
        n = 0
        for ri, r in enumerate(runs):
            if n + len(r) >= d:
                ev = json.loads(r[d - n - 1])
                head = json.loads(r[0])
                if len(r[0]) > 5000:
                    head = {k: v for k, v in head.items() if k != "input"}
                rejections.append({"line_in_run": d - n, "event": ev, "run_head": head,
                                   "run_lines": r[: d - n + 2]})
                del runs[ri]
                break
            n += len(r)
    return total_events, len(runs), rejections


def _validate_trace(text, module, max_rejects, timeout):
    """Runs are independent (a reset line separates them), so a long recording is validated in chunks of whole runs,
    a few TLC processes side by side: time stays linear in the length of the recording and no single TLC process
    holds more than CHUNK_LINES events."""
    lines = [l for l in text.split("\n") if l.strip()]
    runs = split_runs(lines)
    crashed = [r for r in runs if json.loads(r[0]).get("err")]
    runs = [r for r in runs if not json.loads(r[0]).get("err")]
    chunks, cur, n = [], [], 0
    for r in runs:
        if cur and n + len(r) > CHUNK_LINES:
            chunks.append(cur)
            cur, n = [], 0
        cur.append(r)
        n += len(r)
    if cur:
        chunks.append(cur)
    jobs = [(ch, module, max_rejects, timeout, i) for i, ch in enumerate(chunks)]
    if len(jobs) <= 1:
        results = [_validate_chunk(j) for j in jobs]
    else:
        from concurrent.futures import ThreadPoolExecutor
        with ThreadPoolExecutor(max_workers=4) as ex:
            results = list(ex.map(_validate_chunk, jobs))
    total_events = sum(r[0] for r in results)
    nruns = sum(r[1] for r in results)
    rejections = [x for r in results for x in r[2]]
    return total_events, nruns, rejections, crashed


def record(seed, nvalues):
    out = os.path.join(c.OUT, f"trace-{seed}-{nvalues}-{os.getpid()}.ndjson")
    rc, o, dt = c.run([c.hbin("drive"), "record", str(seed), str(nvalues), out], timeout=1800, driver="drive record")
    if rc != 0:
        c.driver_failed("drive record", rc, o)
    return out


def trace_selftest():
    """The binding is real: a corrupted field and a dropped event are both rejected at that line."""
    p = record(99, 40)
    lines = [l for l in open(p).read().split("\n") if l.strip()]
    os.remove(p)
    idx = [i for i, l in enumerate(lines) if '"op":"w_i' in l and '"out":[]' not in l and '"p"' not in l]
    ok = True
    if idx:
        i = idx[len(idx) // 2]
        j = json.loads(lines[i])
        j["out"][0] ^= 1
        m = list(lines)
        m[i] = json.dumps(j)
        t = os.path.join(c.OUT, f"selftest-{os.getpid()}.ndjson")
        open(t, "w").write("\n".join(m) + "\n")
        _, _, rej, _ = validate_trace(t, max_rejects=0)
        ok = ok and len(rej) == 1 and rej[0]["event"].get("op") == j["op"]
        idx2 = [k for k, l in enumerate(lines) if '"op":"r_field_begin"' in l]
        k = idx2[len(idx2) // 3]
        m = list(lines)
        del m[k]
        open(t, "w").write("\n".join(m) + "\n")
        _, _, rej2, _ = validate_trace(t, max_rejects=0)
        ok = ok and len(rej2) == 1
        os.remove(t)
    return ok


WRITE_CHECKS = {"crash", "hang", "seq-crash", "enc-crash", "enc-err", "write-leaves-fresh", "seq-enc-err", "seq-write-fresh", "walk-write-err", "walk-write-bytes",
                "walk-write-state", "walk-write-panic"}
READ_CHECKS = {"crash", "hang", "seq-crash", "dec-crash", "rt-dec-err", "rt-value", "dec-exact-err", "dec-exact", "dec-err", "dec-value", "dec-consumed", "dec-next", "read-leaves-fresh", "seq-dec-err", "seq-dec", "seq-read-fresh",
               "walk-read", "walk-read-consumed", "walk-read-state", "walk-read-panic"}
BYTES_CHECKS = {"enc-bytes", "seq-enc-bytes"}
LEN_CHECKS = {"len", "seq-len", "len-leaves-fresh", "walk-len", "walk-len-state", "walk-len-panic"}
SKIP_CHECKS = {"skip", "skip-err", "skip-state", "skip-crash", "crash", "hang"}
GUARD_CHECKS = {"guard", "seq-guard"}


def cls_of(m):
    return {"check": m["check"], "proto": m["proto"], "kind": m.get("vkind", "-")}


def cached_model_check(name, module, cfg, tier, workers=8, timeout=3600, xmx="8g"):
    """An exhaustive TLC run whose result depends on the specification only."""
    key = c.spec_hash(module, name, cfg, tier)
    p = os.path.join(c.OUT, "cache", f"mc-{name}-{tier}-{key}.json")
    os.makedirs(os.path.dirname(p), exist_ok=True)
    if os.path.exists(p):
        return json.load(open(p))
    res = c.tlc(module, cfg=cfg, env={"VERIF_TIER": tier}, workers=workers, timeout=timeout, xmx=xmx, tag=name)
    c.tlc_must_pass(res, name)
    st = {"generated": res["generated"], "distinct": res["distinct"], "dt": round(res["dt"], 1), "cfg": cfg, "module": module}
    json.dump(st, open(p, "w"))
    return st


def cached_model_refutation(name, module, cfg, tier, invariant, workers=4, timeout=1800, xmx="4g"):
    """A configuration that describes a DEFECTIVE variant of the design: TLC must find the invariant violated.  A run that
    finds no error means the model cannot tell the variants apart (vacuous) -- a tool error."""
    key = c.spec_hash(module, name, cfg, tier)
    p = os.path.join(c.OUT, "cache", f"mcref-{name}-{tier}-{key}.json")
    os.makedirs(os.path.dirname(p), exist_ok=True)
    if os.path.exists(p):
        return json.load(open(p))
    res = c.tlc(module, cfg=cfg, env={"VERIF_TIER": tier}, workers=workers, timeout=timeout, xmx=xmx, tag=name)
    out = res.get("out", "")
    if f"Invariant {invariant} is violated" not in out:
        raise c.ToolError(f"{module}/{cfg}: expected a counterexample to {invariant}, TLC reported none:\n" + out[-1500:])
    st = {"cfg": cfg, "module": module, "refuted": invariant, "dt": round(res["dt"], 1)}
    json.dump(st, open(p, "w"))
    return st


def record_skip(seed, nvalues, vectors=None):
    """`drive skiptrace`: iteration events of the unchecked reader's iterative skipper (hook verif_skip).
    Returns (trace path, crashes): a death of the driver inside the code under test is an observation; the run that was in
    flight (its `sreset` line carries the input) is cut out and the driver resumes behind it."""
    out = os.path.join(c.OUT, f"skiptrace-{seed}-{nvalues}-{os.getpid()}.ndjson")
    if os.path.exists(out):
        os.remove(out)
    crashes, start = [], 0
    while True:
        cmd = [c.hbin("drive"), "skiptrace", str(seed), str(nvalues), out, vectors or "-", str(start)]
        rc, o, hung = run_watched(cmd, out, stall=60, total=1800)
        if rc == 0 and not hung:
            break
        if hung:
            o = o + "\nhang: the skipper did not finish this value within 60 s, process killed"
        lines = [l for l in open(out).read().split("\n") if l.strip()] if os.path.exists(out) else []
        last = max([i for i, l in enumerate(lines) if '"op":"sreset"' in l], default=None)
        if last is None or any('"op":"sdone"' in l for l in lines[last:]):
            raise c.ToolError("drive skiptrace failed outside a skip call:\n" + o[-3000:])
        head = json.loads(lines[last])
        crashes.append({"input": head["input"][:400], "t": head["t"], "n": head["n"], "tree_index": head["run"],
                        "iterations_logged": len(lines) - last - 1, "death": o.strip()[-300:]})
        open(out, "w").write("\n".join(lines[:last]) + ("\n" if last else ""))
        start = head["run"] + 1
        if len(crashes) > 50 or len([x for x in crashes if "hang:" in x["death"]]) >= 3:
            break
    return out, crashes


def skip_trace_check(rep, tier, seed, vsets=("universe", "deep")):
    """Record the skipper on the TLC vectors and on seeded random trees, validate against IterSkip; exhaustive model check of
    IterSkip itself.  Returns a coverage dict; rejections are reported on `rep`."""
    mc = cached_model_check("iterskip", "MCIterSkip", "MCIterSkip.cfg", tier, workers=6)
    total = {"events_validated": 0, "runs_validated": 0, "rejections": 0, "model": mc}
    n = 300 if tier == "quick" else 20000
    for k, vs in enumerate(list(vsets) + [None]):
        vec = vectors(tier, vs)[0] if vs else None
        tp, crashes = record_skip(seed + 7 + k, n if vs is None else 0, vec)
        for cr in crashes:
            rep.violation({"check": "skip-crash", "proto": "unsafe", "op": "skip", "tt": cr["t"]}, dict(cr, source=vs or "seeded random trees"))
        total["crashes"] = total.get("crashes", 0) + len(crashes)
        events, runs, rejections, crashed = validate_trace(tp, module="IterSkipTrace")
        os.remove(tp)
        total["events_validated"] += events
        total["runs_validated"] += runs
        total["rejections"] += len(rejections)
        for r in rejections:
            ev = r["event"]
            rep.violation({"check": "skip-trace-rejected", "proto": "unsafe", "op": ev.get("op"), "tt": ev.get("tt", ev.get("ret"))},
                          {"source": vs or "seeded random trees", "rejected_at": r["line_in_run"], "event": ev, "run": r["run_lines"][:40]})
    return total


def async_inductive(tier):
    """Unbounded part of C12's design check: spec/ThriftAsyncApa.tla is the transition system of ThriftAsync with SYMBOLIC
    request sizes (any message of <= 24 requests of any positive size, any end-of-stream position, any schedule).  Apalache
    proves IndInv inductive (Init => IndInv; IndInv /\\ Next => IndInv') and IndInv => NoOverRead /\\ Exact /\\ EofIsError /\\
    ErrOnlyOnEof; a variant whose Deliver may take one byte more than the request still needs must be refuted at the
    inductive step (else the proof is vacuous: tool error).  Cached on the specification text."""
    key = c.spec_hash("ThriftAsyncApa", "apalache-async")
    p = os.path.join(c.OUT, "cache", f"apalache-async-{key}.json")
    if os.path.exists(p):
        return json.load(open(p))
    # the typed module repeats the actions of ThriftAsync (the module TLC checks and the poll traces are validated against):
    # the definitions that can be compared literally must be the same text
    def defs(path):
        t = open(path).read()
        out = {}
        for name in ("Cap", "Avail", "Finish", "Pending", "Eof"):
            m = re.search(r"^" + name + r" ==(.*?)(?=^\S)", t, re.M | re.S)
            out[name] = re.sub(r"\s+", " ", m.group(1)).strip() if m else None
        return out
    d1, d2 = defs(os.path.join(c.SPEC, "ThriftAsync.tla")), defs(os.path.join(c.SPEC, "ThriftAsyncApa.tla"))
    if d1 != d2 or None in d1.values():
        raise c.ToolError("ThriftAsyncApa.tla no longer repeats the actions of ThriftAsync.tla: " + json.dumps([k for k in d1 if d1[k] != d2[k]]))
    base = c.apalache("ThriftAsyncApa", ["--cinit=ConstInit", "--init=Init", "--inv=IndInv", "--length=0"], tag="apa-base")
    step = c.apalache("ThriftAsyncApa", ["--cinit=ConstInit", "--init=IndInit", "--inv=IndInv", "--length=1"], tag="apa-step")
    props = c.apalache("ThriftAsyncApa", ["--cinit=ConstInit", "--init=IndInit", "--inv=Props", "--length=0"], tag="apa-props")
    for name, r in (("Init => IndInv", base), ("IndInv /\\ Next => IndInv'", step), ("IndInv => Props", props)):
        if not r["ok"]:
            raise c.ToolError(f"ThriftAsyncApa: {name} does not hold:\n" + r["out"])
    txt = open(os.path.join(c.SPEC, "ThriftAsyncApa.tla")).read()
    bad = txt.replace("1 <= k /\\ k <= Cap /\\ k <= Avail", "1 <= k /\\ k <= Cap + 1 /\\ k <= Avail")
    if bad == txt:
        raise c.ToolError("ThriftAsyncApa: the defective variant could not be derived from the text")
    ref = c.apalache("ThriftAsyncApa", ["--cinit=ConstInit", "--init=IndInit", "--inv=IndInv", "--length=1"], tag="apa-ref", text=bad)
    if not ref["violation"]:
        raise c.ToolError("ThriftAsyncApa: a Deliver that over-reads by one byte is not refuted (vacuous proof):\n" + ref["out"])
    st = {"engine": "apalache 0.58", "max_requests": 24, "request_sizes": "symbolic (any positive integer)",
          "obligations": {"Init => IndInv": base["dt"], "IndInv /\\ Next => IndInv'": step["dt"], "IndInv => NoOverRead /\\ Exact /\\ EofIsError /\\ ErrOnlyOnEof": props["dt"]},
          "defective_variant_refuted": "Deliver may take Cap + 1 bytes: inductive step fails"}
    json.dump(st, open(p, "w"))
    return st


def compact_ids_inductive():
    """spec/CompactIdsApa.tla: the compact protocol's field-id channel (writer, length pass, reader in lock step) with SYMBOLIC
    field ids (any i16) and nesting <= 16.  Apalache proves IndInv (the three parties hold the same last id and stack; every
    field begin reconstructs the writer's id and the length pass takes the writer's short/long decision) inductive; three
    defective variants -- a length pass that does not restore its last id at struct end (seed c04f), a writer that saves 0
    instead of its last id at struct begin (seed c01f), a reader that does not reset its last id at struct begin (seed c12g) --
    must each fail the inductive step.  Cached on the specification text."""
    key = c.spec_hash("CompactIdsApa", "apalache-compact-ids")
    p = os.path.join(c.OUT, "cache", f"apalache-compact-ids-{key}.json")
    if os.path.exists(p):
        return json.load(open(p))
    # the abstraction takes its short/long rule from CompactProto.Header (the module the call traces are validated against)
    if "IF delta > 0 /\\ delta < 15 THEN" not in open(os.path.join(c.SPEC, "CompactProto.tla")).read():
        raise c.ToolError("CompactProto.Header no longer states the short-form rule CompactIdsApa.Short abstracts")
    base = c.apalache("CompactIdsApa", ["--cinit=ConstInit", "--init=Init", "--inv=IndInv", "--length=0"], tag="apa-ids-base")
    step = c.apalache("CompactIdsApa", ["--cinit=ConstInit", "--init=IndInit", "--inv=IndInv", "--length=1"], tag="apa-ids-step")
    for name, r in (("Init => IndInv", base), ("IndInv /\\ Next => IndInv'", step)):
        if not r["ok"]:
            raise c.ToolError(f"CompactIdsApa: {name} does not hold:\n" + r["out"])
    txt = open(os.path.join(c.SPEC, "CompactIdsApa.tla")).read()
    variants = {
        "length pass keeps its last id at struct end": ("/\\ ll' = ls[Len(ls)] /\\ ls' = SubSeq(ls, 1, Len(ls) - 1)", "/\\ ll' = ll /\\ ls' = SubSeq(ls, 1, Len(ls) - 1)"),
        "writer saves 0 instead of its last id at struct begin": ("/\\ ws' = Append(ws, wl) /\\ wl' = 0", "/\\ ws' = Append(ws, 0) /\\ wl' = 0"),
        "reader keeps its last id at struct begin": ("/\\ rs' = Append(rs, rl) /\\ rl' = 0", "/\\ rs' = Append(rs, rl) /\\ rl' = rl"),
    }
    refuted = []
    for name, (a, b) in variants.items():
        if a not in txt:
            raise c.ToolError("CompactIdsApa: cannot derive the variant: " + name)
        r = c.apalache("CompactIdsApa", ["--cinit=ConstInit", "--init=IndInit", "--inv=IndInv", "--length=1"], tag="apa-ids-ref", text=txt.replace(a, b, 1))
        if not r["violation"]:
            raise c.ToolError(f"CompactIdsApa: the variant '{name}' is not refuted (vacuous proof):\n" + r["out"])
        refuted.append(name)
    st = {"engine": "apalache 0.58", "field_ids": "symbolic (any i16)", "max_depth": 16,
          "obligations": {"Init => IndInv": base["dt"], "IndInv /\\ Next => IndInv'": step["dt"]}, "defective_variants_refuted": refuted}
    json.dump(st, open(p, "w"))
    return st
