"""Thrift schema corpora (the program space G_thrift of DESIGN.md 5, appendix B) as JSON, and the
rendering of a schema as IDL text with a fixed default layout.  Semantics (what a value of a
schema type is, how it encodes, what a reader must produce) live in spec/ThriftSchema.tla; this
module only enumerates programs and prints them.

T ::= {"b": base} | {"list": T} | {"set": T} | {"map": [K, V]} | {"ref": Name}      (+ optional "ann")
def ::= struct | exception | union | enum | typedef | service (+ synthesized Args/Result types)
"""
import json, random, struct as _struct

BASES = ["bool", "i8", "i16", "i32", "i64", "double", "string", "binary", "uuid"]


def b(x, **ann):
    t = {"b": x}
    if ann:
        t["ann"] = ann
    return t


def lst(t, **ann):
    r = {"list": t}
    if ann:
        r["ann"] = ann
    return r


def st(t, **ann):
    r = {"set": t}
    if ann:
        r["ann"] = ann
    return r


def mp(k, v, **ann):
    r = {"map": [k, v]}
    if ann:
        r["ann"] = ann
    return r


def ref(n, **ann):
    r = {"ref": n}
    if ann:
        r["ann"] = ann
    return r


def dbl_bits(x):
    return list(_struct.pack(">d", float(x)))


# ------------------------------------------------------------------ default literals
def lit_int(n):
    return {"int": n}


def lit_dbl(text):
    return {"dbl": text, "bits": dbl_bits(text)}


def lit_str(s):
    return {"str": s}


def lit_esc(idl_text, value):
    """A string literal whose IDL text (between the quotes) uses escapes; `value` is the string it denotes."""
    return {"str": value, "idl": idl_text}


# ------------------------------------------------------------------ IDL rendering
def ty_idl(t):
    ann = ""
    if "ann" in t:
        ann = "(" + ", ".join(f'{k} = "{v}"' for k, v in sorted(t["ann"].items())) + ")"
    if "b" in t:
        return ("byte" if t["b"] == "i8" and t.get("as_byte") else t["b"]) + ann
    if "list" in t:
        return f"list<{ty_idl(t['list'])}>" + ann
    if "set" in t:
        return f"set<{ty_idl(t['set'])}>" + ann
    if "map" in t:
        return f"map<{ty_idl(t['map'][0])}, {ty_idl(t['map'][1])}>" + ann
    return t["ref"] + ann


def lit_idl(l):
    if "int" in l:
        return str(l["int"])
    if "bool" in l:
        return "true" if l["bool"] else "false"
    if "dbl" in l:
        return l["dbl"]
    if "str" in l:
        return '"' + l.get("idl", l["str"]) + '"'
    if "enum" in l:
        return l["enum"]
    if "const" in l:
        return l["const"]
    if "list" in l:
        return "[" + ", ".join(lit_idl(x) for x in l["list"]) + "]"
    if "map" in l:
        return "{" + ", ".join(f"{lit_idl(k)}: {lit_idl(v)}" for k, v in l["map"]) + "}"
    if "struct" in l:
        return "{" + ", ".join(f'"{k}": {lit_idl(v)}' for k, v in l["struct"]) + "}"
    raise ValueError(l)


def field_idl(f, in_args=False):
    req = {"required": "required ", "optional": "optional ", "default": ""}[f["req"]]
    d = f" = {lit_idl(f['default'])}" if f.get("default") is not None else ""
    # pilota's annotations (rust_type, rust_wrapper_arc, name) are FIELD annotations: a top-level
    # annotation of the field's type is printed behind the field name
    anns = dict(f.get("ann") or {})
    ty = f["ty"]
    if isinstance(ty, dict) and "ann" in ty:
        anns.update(ty["ann"])
        ty = {k: v for k, v in ty.items() if k != "ann"}
    ann = ""
    if anns:
        ann = " (" + ", ".join(f'{k} = "{v}"' for k, v in sorted(anns.items())) + ")"
    return f"    {f['id']}: {req}{ty_idl(ty)} {f['name']}{d}{ann},"


def render(schema):
    out = []
    for ns in schema.get("namespaces", []):
        out.append(f"namespace {ns[0]} {ns[1]}")
    for inc in schema.get("includes", []):
        out.append(f'include "{inc}"')
    for d in schema["defs"]:
        if d.get("synth"):
            continue
        k = d["d"]
        if k in ("struct", "exception", "union"):
            out.append(f"{k} {d['name']} {{")
            for f in d["fields"]:
                out.append(field_idl(f))
            out.append("}")
        elif k == "enum":
            out.append(f"enum {d['name']} {{")
            for n, v in d["values"]:
                out.append(f"    {n} = {v},")
            out.append("}")
        elif k == "typedef":
            out.append(f"typedef {ty_idl(d['ty'])} {d['name']}")
        elif k == "const":
            out.append(f"const {ty_idl(d['ty'])} {d['name']} = {lit_idl(d['value'])}")
        elif k == "service":
            out.append(f"service {d['name']} {{")
            for m in d["methods"]:
                args = " ".join(field_idl(a).strip() for a in m["args"])
                thr = ""
                if m.get("throws"):
                    thr = " throws (" + " ".join(field_idl(a).strip() for a in m["throws"]) + ")"
                ret = "void" if m["ret"] == "void" else ty_idl(m["ret"])
                ow = "oneway " if m.get("oneway") else ""
                out.append(f"    {ow}{ret} {m['name']}({args}){thr},")
            out.append("}")
        out.append("")
    return "\n".join(out) + "\n"


def camel(s):
    # names used in corpora are chosen so that pilota's case conversion is the identity on type
    # names ("Aa1") and a plain upper-camel on method names ("ma" -> "Ma")
    return s[0].upper() + s[1:]


def synthesize(schema):
    """Add the argument / result types pilota synthesizes for service methods."""
    extra = []
    for d in schema["defs"]:
        if d["d"] != "service":
            continue
        for m in d["methods"]:
            base = camel(d["name"]) + camel(m["name"])
            args = []
            for a in m["args"]:
                a2 = dict(a)
                # the parser turns default requiredness of ARGUMENTS into required
                if a2["req"] == "default":
                    a2["req"] = "required"
                args.append(a2)
            for sfx in ("ArgsSend", "ArgsRecv"):
                extra.append({"d": "struct", "name": base + sfx, "fields": args, "synth": True, "is_arg": True})
            variants = []
            if True:
                variants.append({"id": 0, "req": "default", "ty": m["ret"] if m["ret"] != "void" else "void", "name": "Ok"})
            for t in m.get("throws", []):
                variants.append({"id": t["id"], "req": "default", "ty": t["ty"], "name": t["name"]})
            for sfx in ("ResultSend", "ResultRecv"):
                extra.append({"d": "union", "name": base + sfx, "fields": variants, "synth": True, "voidok": m["ret"] == "void"})
            if m.get("throws"):
                extra.append({"d": "union", "name": base + "Exception", "fields": variants[1:], "synth": True, "voidok": False})
    schema["defs"].extend(extra)
    # types pilota treats as "argument types" (resolve.rs lower_path(.., is_args)): the path types
    # of method arguments, also inside containers
    argt = set()

    # resolve.rs: lower_type(&a.ty, true) / lower_type(&m.ret, true) mark only the PATH type itself
    # (container element types are lowered with is_args = false)
    for d in schema["defs"]:
        if d["d"] == "service":
            for m in d["methods"]:
                for a in m["args"]:
                    if isinstance(a["ty"], dict) and "ref" in a["ty"]:
                        argt.add(a["ty"]["ref"])
                if isinstance(m["ret"], dict) and "ref" in m["ret"]:
                    argt.add(m["ret"]["ref"])
    schema["argtypes"] = sorted(argt)
    return schema


# ------------------------------------------------------------------ corpus
def shape_pool(en="E1", sref="Leaf1", uref="U1", tdi="TdI32", tds="TdStr", tdl="TdList"):
    """(tag, type, hashable?) -- the type-shape pool of appendix B (quarantined shapes excluded)."""
    P = []
    for x in BASES:
        P.append((x, b(x), x not in ("double",)))
    P += [
        ("enum", ref(en), True), ("td-i32", ref(tdi), True), ("td-str", ref(tds), True), ("td-list", ref(tdl), True),
        ("struct", ref(sref), True), ("union", ref(uref), True),
        ("td-enum", ref("TdEnum"), True), ("td-td-i32", ref("TdTdI32"), True), ("td-td-str", ref("TdTdStr"), True),
        ("td-struct", ref("TdLeaf"), True), ("td-map", ref("TdMap"), False), ("list-td-enum", lst(ref("TdEnum")), True),
        ("map-td-i32-td-enum", mp(ref("TdI32"), ref("TdEnum")), False),
        ("list-bool", lst(b("bool")), True), ("list-i32", lst(b("i32")), True), ("list-i64", lst(b("i64")), True),
        ("list-double", lst(b("double")), False), ("list-string", lst(b("string")), True), ("list-binary", lst(b("binary")), True),
        ("list-struct", lst(ref(sref)), True), ("list-enum", lst(ref(en)), True), ("list-list-i32", lst(lst(b("i32"))), True),
        ("list-map", lst(mp(b("string"), b("i32"))), False),
        ("set-i16", st(b("i16")), False), ("set-i32", st(b("i32")), False), ("set-string", st(b("string")), False),
        ("set-enum", st(ref(en)), False), ("set-double", st(b("double")), False), ("set-list-i32", st(lst(b("i32"))), False),
        ("map-string-i32", mp(b("string"), b("i32")), False), ("map-i32-string", mp(b("i32"), b("string")), False),
        ("map-i64-struct", mp(b("i64"), ref(sref)), False), ("map-string-list", mp(b("string"), lst(b("i32"))), False),
        ("map-enum-string", mp(ref(en), b("string")), False), ("map-bool-binary", mp(b("bool"), b("binary")), False),
        ("map-double-i32", mp(b("double"), b("i32")), False), ("map-string-map", mp(b("string"), mp(b("string"), b("i32"))), False),
        ("map-i16-set", mp(b("i16"), st(b("i32"))), False), ("map-struct-i32", mp(ref(sref), b("i32")), False),
        ("list3", lst(lst(lst(b("i32")))), True), ("map-list-map", mp(b("string"), lst(mp(b("i32"), b("string")))), False),
        ("list-set-string", lst(st(b("string"))), False),
        ("string-faststr", b("string", **{"pilota.rust_type": "string"}), True),
        ("binary-vec", b("binary", **{"pilota.rust_type": "vec"}), True),
        ("map-btree", mp(b("string"), b("i32"), **{"pilota.rust_type": "btree"}), True),
        ("set-btree", st(b("i32"), **{"pilota.rust_type": "btree"}), True),
        ("struct-arc", ref(sref, **{"pilota.rust_wrapper_arc": "true"}), True),
        ("list-struct-arc", lst(ref(sref), **{"pilota.rust_wrapper_arc": "true"}), True),
        ("enum-arc", ref(en, **{"pilota.rust_wrapper_arc": "true"}), True),
        ("td-i32-arc", ref(tdi, **{"pilota.rust_wrapper_arc": "true"}), True),
        ("td-list-arc", ref(tdl, **{"pilota.rust_wrapper_arc": "true"}), True),
        ("union-arc", ref(uref, **{"pilota.rust_wrapper_arc": "true"}), True),
        ("map-string-struct-arc", mp(b("string"), ref(sref), **{"pilota.rust_wrapper_arc": "true"}), False),
    ]
    return P


DEFAULTS = {
    "bool": [{"bool": True}, {"int": 1}], "i8": [lit_int(-128)], "i16": [lit_int(300)], "i32": [lit_int(-7)],
    "i64": [lit_int(9223372036854775807)], "double": [lit_dbl("1.5"), {"int": 2, "as": "dbl", "bits": dbl_bits(2)}, lit_dbl("-2.5e3")],
    "string": [lit_str("hi there")], "binary": [lit_str("bin")],
    "enum": [{"enum": "E1.B"}, {"int": 5, "as": "enum"}],
    "list-i32": [{"list": [lit_int(1), lit_int(2)]}], "set-i32": [{"list": [lit_int(3)]}],
    "map-string-i32": [{"map": [[lit_str("k"), lit_int(1)]]}],
    "list-string": [{"list": [lit_str("a"), lit_str("b")]}],
    "td-i32": [lit_int(44)], "td-str": [lit_str("td")], "td-td-i32": [lit_int(-45)],
    "map-string-list": [{"map": [[lit_str("k"), {"list": [lit_int(1), lit_int(2)]}]]}],
}


def base_defs():
    """Definitions every corpus schema shares: enum, typedefs, a leaf struct, a union, recursive types."""
    return [
        {"d": "enum", "name": "E1", "values": [["A", 1], ["B", 5], ["C", 300]]},
        {"d": "typedef", "name": "TdI32", "ty": b("i32")},
        {"d": "typedef", "name": "TdStr", "ty": b("string")},
        {"d": "typedef", "name": "TdList", "ty": lst(b("string"))},
        {"d": "typedef", "name": "TdEnum", "ty": ref("E1")},
        {"d": "typedef", "name": "TdTdI32", "ty": ref("TdI32")},
        {"d": "typedef", "name": "TdTdStr", "ty": ref("TdStr")},
        {"d": "typedef", "name": "TdMap", "ty": mp(b("string"), ref("TdI32"))},
        {"d": "struct", "name": "Leaf1", "fields": [
            {"id": 1, "req": "required", "ty": b("i32"), "name": "a"},
            {"id": 2, "req": "optional", "ty": b("string"), "name": "s"},
            {"id": 3, "req": "default", "ty": b("bool"), "name": "flag"}]},
        {"d": "typedef", "name": "TdLeaf", "ty": ref("Leaf1")},
        {"d": "union", "name": "U1", "fields": [
            {"id": 1, "req": "default", "ty": b("i64"), "name": "n"},
            {"id": 2, "req": "default", "ty": b("string"), "name": "s"},
            {"id": 3, "req": "default", "ty": ref("Leaf1"), "name": "l"},
            {"id": 16, "req": "default", "ty": lst(b("i16")), "name": "xs"}]},
        {"d": "exception", "name": "Ex1", "fields": [
            {"id": 1, "req": "default", "ty": b("string"), "name": "message"},
            {"id": 2, "req": "optional", "ty": b("i32"), "name": "code"}]},
        {"d": "struct", "name": "Rec1", "fields": [
            {"id": 1, "req": "required", "ty": b("i8"), "name": "v"},
            {"id": 2, "req": "optional", "ty": ref("Rec1"), "name": "next"},
            {"id": 3, "req": "optional", "ty": lst(ref("Rec1")), "name": "kids"},
            {"id": 4, "req": "optional", "ty": mp(b("string"), ref("Rec1")), "name": "named"}]},
        {"d": "struct", "name": "MutA", "fields": [
            {"id": 1, "req": "optional", "ty": ref("MutB"), "name": "b"}, {"id": 2, "req": "default", "ty": b("i16"), "name": "x"}]},
        {"d": "struct", "name": "MutB", "fields": [
            {"id": 1, "req": "optional", "ty": ref("MutA"), "name": "a"}, {"id": 3, "req": "default", "ty": b("bool"), "name": "y"}]},
    ]


ID_SETS = [[1, 2, 3], [1, 15, 16], [5, 20, 21], [127, 128, 300], [1, 2, 32767], [3, 4, 17]]


def corpus(n_schemas, seed, with_defaults=True, with_services=True):
    """Covering selection over the shape pool: every shape appears as required and as optional field,
    in first / middle / last position, next to every one of the 12 most stateful shapes at least once."""
    rnd = random.Random(seed)
    pool = shape_pool()
    stateful = [p for p in pool if p[0] in ("bool", "struct", "list-struct", "map-string-i32", "string", "i64", "double",
                                            "enum", "union", "binary", "uuid", "list-bool")]
    schemas = []
    work = []
    for tag, ty, _ in pool:
        for req in ("required", "optional", "default"):
            work.append((tag, ty, req))
    rnd.shuffle(work)
    per = max(1, (len(work) + n_schemas - 1) // n_schemas)
    for si in range(n_schemas):
        chunk = work[si * per:(si + 1) * per]
        if not chunk:
            chunk = rnd.sample(work, min(per, len(work)))
        defs = base_defs()
        structs = []
        # pack the chunk into structs of three fields: (stateful neighbour, shape, stateful neighbour) rotated
        for k in range(0, len(chunk), 2):
            grp = chunk[k:k + 2]
            ids = ID_SETS[(si + k) % len(ID_SETS)]
            nb = stateful[(si * 7 + k) % len(stateful)]
            order = rnd.choice([0, 1, 2])
            items = [(g[0], g[1], g[2]) for g in grp]
            items.insert(order % (len(items) + 1), (nb[0], nb[1], rnd.choice(["required", "optional"])))
            fields = []
            for fi, (tag, ty, req) in enumerate(items[:3]):
                f = {"id": ids[fi], "req": req, "ty": ty, "name": f"f{fi + 1}"}
                if with_defaults and tag in DEFAULTS and rnd.random() < 0.5:
                    f["default"] = rnd.choice(DEFAULTS[tag])
                fields.append(f)
            name = f"S{si}x{k // 2}"
            structs.append(name)
            kind = "exception" if (k // 2) % 5 == 4 else "struct"
            defs.append({"d": kind, "name": name, "fields": fields})
        # a union over some shapes of this chunk and a struct nesting the generated structs
        uf = []
        for vi, (tag, ty, _) in enumerate(chunk[:4]):
            uf.append({"id": [1, 2, 16, 300][vi], "req": "default", "ty": ty, "name": f"v{vi + 1}"})
        defs.append({"d": "union", "name": f"Un{si}", "fields": uf})
        outer = [{"id": 1, "req": "optional", "ty": ref(f"Un{si}"), "name": "u"}]
        for j, sname in enumerate(structs[:3]):
            outer.append({"id": 2 + j, "req": ["required", "optional", "default"][j % 3], "ty": ref(sname), "name": f"s{j}"})
        outer.append({"id": 9, "req": "optional", "ty": lst(ref(structs[0])), "name": "many"})
        outer.append({"id": 10, "req": "optional", "ty": mp(b("string"), ref(structs[-1])), "name": "named"})
        outer.append({"id": 11, "req": "default", "ty": b("bool"), "name": "tail"})
        defs.append({"d": "struct", "name": f"Outer{si}", "fields": outer})
        if with_services:
            # a request struct as a framework would see it: defaults of several kinds in front of and between plain fields
            defs.append({"d": "struct", "name": f"Req{si}", "fields": [
                {"id": 1, "req": "default", "ty": b("i32"), "name": "page", "default": lit_int(7)},
                {"id": 2, "req": "optional", "ty": b("string"), "name": "note"},
                {"id": 3, "req": "required", "ty": b("i64"), "name": "z"},
                {"id": 4, "req": "optional", "ty": b("bool"), "name": "flag", "default": {"bool": True}},
                {"id": 5, "req": "default", "ty": b("string"), "name": "lang", "default": lit_str("en")},
                {"id": 6, "req": "optional", "ty": lst(b("i32")), "name": "xs"},
                {"id": 16, "req": "default", "ty": ref("Leaf1"), "name": "leaf"}]})
            defs.append({"d": "service", "name": f"Svc{si}", "methods": [
                {"name": "ma", "ret": ref(structs[0]), "args": [
                    {"id": 1, "req": "default", "ty": ref(f"Outer{si}"), "name": "req"},
                    {"id": 2, "req": "optional", "ty": b("i32"), "name": "n"}],
                 "throws": [{"id": 1, "req": "default", "ty": ref("Ex1"), "name": "e1"}]},
                {"name": "mb", "ret": "void", "args": [{"id": 1, "req": "default", "ty": chunk[0][1], "name": "x"},
                                                        {"id": 3, "req": "default", "ty": b("bool"), "name": "b"}]},
                {"name": "mc", "ret": b("string"), "args": []},
                # the scenario the argument-type shortcut of keep_unknown_fields is designed for: ONE struct argument, so that the
                # request struct is the last thing in the Args struct and the Args struct the last thing in the buffer
                {"name": "md", "ret": "void", "args": [{"id": 1, "req": "default", "ty": ref(f"Req{si}"), "name": "req"}]},
            ]})
        schemas.append(synthesize({"name": f"c{si}", "defs": defs}))
    for si, sch in enumerate(schemas):
        if si % 2 == 0:
            spell_bytes(sch)
    return schemas


def spell_bytes(schema):
    """`byte` is the IDL's second spelling of i8, and the generator treats it on a path of its own (write_byte_field /
    read_byte): in every other schema of a corpus the i8 -- struct-level fields and container elements alike -- are written `byte`."""
    def walk(t):
        if not isinstance(t, dict):
            return
        if t.get("b") == "i8":
            t["as_byte"] = True
        for k in ("list", "set"):
            if k in t:
                walk(t[k])
        if "map" in t:
            walk(t["map"][0])
            walk(t["map"][1])
    for d in schema["defs"]:
        for f in d.get("fields", []):
            walk(f["ty"])
        if d.get("d") == "typedef":
            walk(d["ty"])
        for m in d.get("methods", []):
            for a in m.get("args", []):
                walk(a["ty"])
            if m.get("ret") != "void":
                walk(m.get("ret"))


# every kind of default literal of G_thrift, systematically: (shape tag, literal)
DEFAULT_LITERALS = [
    ("bool", {"bool": True}), ("bool", {"bool": False}), ("bool", {"int": 1}), ("bool", {"int": 0}),
    ("i8", lit_int(-128)), ("i8", lit_int(127)), ("i16", lit_int(-32768)), ("i16", lit_int(300)),
    ("i32", lit_int(2147483647)), ("i32", lit_int(-2147483648)), ("i32", lit_int(0)),
    ("i64", lit_int(9223372036854775807)), ("i64", lit_int(-9223372036854775807)),
    ("double", lit_dbl("1.5")), ("double", lit_dbl("-2.5e3")), ("double", lit_dbl("0.1")), ("double", lit_dbl("1e300")),
    ("double", lit_dbl("1.5e-3")), ("double", {"int": 2}), ("double", {"int": 16777217}), ("double", {"int": 123456789}),
    ("double", {"int": -9007199254740993}), ("double", {"int": 0}),
    ("string", lit_str("hi there")), ("string", lit_str("h\u00e9llo w\u00f6rld \u4e16\u754c")), ("string", lit_str("")),
    ("binary", lit_str("bin")), ("binary", lit_str("")),
    ("enum", {"enum": "E1.B"}), ("enum", {"enum": "E1.C"}), ("enum", {"int": 5, "as": "enum"}), ("enum", {"int": 300, "as": "enum"}),
    ("td-i32", lit_int(44)), ("td-str", lit_str("td")), ("td-td-i32", lit_int(-45)), ("td-td-str", lit_str("tdtd")),
    ("td-enum", {"enum": "E1.B"}), ("td-enum", {"int": 300, "as": "enum"}),
    ("string", lit_esc("line\\nbreak", "line\nbreak")), ("string", lit_esc("back\\\\slash", "back\\slash")),
    ("list-string", {"list": [lit_esc("a\\nb", "a\nb"), lit_str("c")]}),
    ("td-list", {"list": [lit_str("p"), lit_str("q")]}), ("td-map", {"map": [[lit_str("k"), lit_int(7)]]}),
    ("list-i32", {"list": [lit_int(1), lit_int(2)]}), ("list-i32", {"list": []}), ("list-i64", {"list": [lit_int(1099511627776)]}),
    ("list-double", {"list": [{"int": 16777217}, lit_dbl("2.5")]}), ("list-string", {"list": [lit_str("a"), lit_str("b")]}),
    ("list-bool", {"list": [{"bool": True}, {"int": 0}]}), ("list-enum", {"list": [{"enum": "E1.A"}, {"int": 300, "as": "enum"}]}),
    ("list-list-i32", {"list": [{"list": [lit_int(1)]}, {"list": [lit_int(2), lit_int(3)]}, {"list": []}]}),
    ("set-i32", {"list": [lit_int(3)]}), ("set-string", {"list": [lit_str("x"), lit_str("y")]}),
    ("map-string-i32", {"map": [[lit_str("k"), lit_int(1)]]}), ("map-string-i32", {"map": []}),
    ("map-i32-string", {"map": [[lit_int(-1), lit_str("m")], [lit_int(2), lit_str("")]]}),
    ("map-enum-string", {"map": [[{"enum": "E1.A"}, lit_str("a")]]}),
    ("map-string-list", {"map": [[lit_str("k"), {"list": [lit_int(1), lit_int(2)]}]]}),
    ("map-bool-binary", {"map": [[{"bool": True}, lit_str("bb")]]}),
    ("set-i32", {"list": [lit_int(3), lit_int(3), lit_int(4)]}), ("set-string", {"list": [lit_str("x"), lit_str("x")]}),
    ("i8", lit_int(-1)), ("i16", lit_int(-1)), ("double", {"int": -3}), ("double", lit_dbl("-0.5")),
    ("binary", lit_str("caf\u00e9 \u00ff")),
    ("list-i32", {"list": [lit_int(100), lit_int(100), lit_int(200), lit_int(100)]}),
    ("list-string", {"list": [lit_str("x"), lit_str("x"), lit_str("y")]}),
    ("list-bool", {"list": [{"bool": True}, {"bool": True}, {"bool": False}, {"bool": False}]}),
    ("list-list-i32", {"list": [{"list": [lit_int(1)]}, {"list": [lit_int(1)]}]}),
    ("map-string-map", {"map": [[lit_str("o"), {"map": [[lit_str("i"), lit_int(9)]]}]]}),
    ("list-map", {"list": [{"map": [[lit_str("a"), lit_int(1)]]}, {"map": []}]}),
]


def defaults_schema():
    """One schema whose structs carry EVERY default literal kind, each as a default-, optional- and required-requiredness field."""
    pool = {tag: ty for tag, ty, _ in shape_pool()}
    defs = base_defs()
    k = 0
    names = []
    for ri, req in enumerate(("default", "optional", "required")):
        for a in range(0, len(DEFAULT_LITERALS), 3):
            grp = DEFAULT_LITERALS[a:a + 3]
            ids = ID_SETS[(a // 3 + ri) % len(ID_SETS)]
            fields = [{"id": ids[i], "req": req, "ty": pool[tag], "name": f"d{i + 1}", "default": lit} for i, (tag, lit) in enumerate(grp)]
            # a neighbour without default between them keeps the missing-field paths apart
            fields.insert(1, {"id": ids[0] + 1000 + k, "req": "optional", "ty": b("i32"), "name": "plain"})
            name = f"Df{k}"
            k += 1
            names.append(name)
            defs.append({"d": "struct", "name": name, "fields": fields})
    # defaults given by reference to a constant (scalar, through a typedef, enum member), in an exception, with escapes,
    # next to a required field (only Default is observable there), and on annotated Rust types
    defs.append({"d": "const", "name": "KInt", "ty": b("i32"), "value": lit_int(7)})
    defs.append({"d": "const", "name": "KStr", "ty": b("string"), "value": lit_str("konst")})
    defs.append({"d": "const", "name": "KDbl", "ty": b("double"), "value": lit_dbl("2.5")})
    defs.append({"d": "const", "name": "KBig", "ty": b("i64"), "value": lit_int(5000000000)})
    defs.append({"d": "struct", "name": "DfConst", "fields": [
        {"id": 1, "req": "default", "ty": b("i32"), "name": "a", "default": {"const": "KInt"}},
        {"id": 2, "req": "optional", "ty": ref("TdI32"), "name": "b", "default": {"const": "KInt"}},
        {"id": 3, "req": "default", "ty": b("string"), "name": "c", "default": {"const": "KStr"}},
        {"id": 4, "req": "optional", "ty": b("double"), "name": "d", "default": {"const": "KDbl"}},
        {"id": 5, "req": "optional", "ty": b("i64"), "name": "e", "default": {"const": "KBig"}},
        {"id": 6, "req": "optional", "ty": b("bool"), "name": "f", "default": {"bool": False}},
        {"id": 7, "req": "optional", "ty": b("i64"), "name": "g", "default": lit_int(5000000001)}]})
    defs.append({"d": "exception", "name": "DfEx", "fields": [
        {"id": 1, "req": "default", "ty": b("string"), "name": "message", "default": lit_str("boom")},
        {"id": 2, "req": "optional", "ty": b("i32"), "name": "code", "default": lit_int(-3)},
        {"id": 3, "req": "default", "ty": ref("E1"), "name": "kind", "default": {"enum": "E1.C"}}]})
    defs.append({"d": "struct", "name": "DfReq", "fields": [
        {"id": 1, "req": "default", "ty": b("i32"), "name": "first", "default": lit_int(11)},
        {"id": 2, "req": "required", "ty": b("string"), "name": "must"},
        {"id": 3, "req": "optional", "ty": lst(b("string")), "name": "tags", "default": {"list": [lit_str("t")]}}]})
    defs.append({"d": "struct", "name": "DfAnn", "fields": [
        {"id": 1, "req": "default", "ty": b("string", **{"pilota.rust_type": "string"}), "name": "s", "default": lit_str("plain")},
        {"id": 2, "req": "optional", "ty": b("binary", **{"pilota.rust_type": "vec"}), "name": "v", "default": lit_str("vec")},
        {"id": 3, "req": "default", "ty": ref("TdTdStr"), "name": "t", "default": lit_str("tdtd")},
        {"id": 4, "req": "default", "ty": mp(b("string"), b("i32"), **{"pilota.rust_type": "btree"}), "name": "m", "default": {"map": [[lit_str("k"), lit_int(1)]]}},
        {"id": 5, "req": "optional", "ty": st(b("i32"), **{"pilota.rust_type": "btree"}), "name": "bs", "default": {"list": [lit_int(2), lit_int(1)]}}]})
    names += ["DfConst", "DfReq", "DfAnn"]
    defs.append({"d": "struct", "name": "DfOuter", "fields": [
        {"id": 1, "req": "default", "ty": ref(names[0]), "name": "first"},
        {"id": 2, "req": "optional", "ty": ref(names[len(names) // 2]), "name": "mid"},
        {"id": 3, "req": "default", "ty": lst(ref(names[-1])), "name": "many"}]})
    return synthesize({"name": "dfl", "defs": defs})


def struct_literal_schema():
    """Struct literals as default values (built WITHOUT keep_unknown_fields only: with it the emitted literal misses the
    `_unknown_fields` member, known finding C14-struct-literal-misses-unknown-fields).  Field names in every naming style, so
    that the literal's keys (IDL names) differ from the generated Rust identifiers."""
    defs = base_defs()
    defs.append({"d": "struct", "name": "Limits", "fields": [
        {"id": 1, "req": "optional", "ty": b("string"), "name": "userName"},
        {"id": 2, "req": "default", "ty": b("i32"), "name": "maxCount"},
        {"id": 3, "req": "optional", "ty": b("i32"), "name": "retries", "default": lit_int(2)},
        {"id": 4, "req": "default", "ty": b("bool"), "name": "type"},
        {"id": 5, "req": "default", "ty": lst(b("i32")), "name": "FOO_BAR"},
        {"id": 6, "req": "default", "ty": b("double"), "name": "x_ratio"}]})
    full = {"struct": [["userName", lit_str("bob")], ["maxCount", lit_int(3)], ["retries", lit_int(5)], ["type", {"bool": True}],
                       ["FOO_BAR", {"list": [lit_int(1), lit_int(2)]}], ["x_ratio", lit_dbl("0.5")]]}
    part = {"struct": [["maxCount", lit_int(9)], ["userName", lit_str("al")], ["type", {"bool": False}], ["FOO_BAR", {"list": []}],
                       ["x_ratio", {"int": 2}], ["retries", lit_int(2)]]}
    defs.append({"d": "struct", "name": "Holder", "fields": [
        {"id": 1, "req": "default", "ty": ref("Limits"), "name": "limits", "default": full},
        {"id": 2, "req": "optional", "ty": ref("Limits"), "name": "maybe", "default": part},
        {"id": 3, "req": "default", "ty": b("i32"), "name": "plain"},
        {"id": 4, "req": "required", "ty": ref("Limits"), "name": "must", "default": full}]})
    defs.append({"d": "struct", "name": "Outer2", "fields": [
        {"id": 1, "req": "default", "ty": ref("Leaf1"), "name": "leaf", "default": {"struct": [["a", lit_int(4)], ["s", lit_str("x")], ["flag", {"bool": True}]]}},
        {"id": 2, "req": "default", "ty": lst(ref("Holder")), "name": "hs"}]})
    # a literal that does NOT list every member: the unlisted members keep the defaults the IDL gives them (known finding
    # C20-struct-literal-drops-member-defaults; the definitions carry a quarantine tag so that only they match it)
    defs.append({"d": "struct", "name": "Limits2", "fields": [
        {"id": 1, "req": "optional", "ty": b("string"), "name": "userName"},
        {"id": 2, "req": "default", "ty": b("i32"), "name": "maxCount", "default": lit_int(4)},
        {"id": 3, "req": "optional", "ty": b("i32"), "name": "retries", "default": lit_int(2)},
        {"id": 4, "req": "required", "ty": b("i32"), "name": "need", "default": lit_int(8)}]})
    defs.append({"d": "struct", "name": "PartHolder", "q": "struct-literal-partial", "fields": [
        {"id": 1, "req": "default", "ty": ref("Limits2"), "name": "limits", "default": {"struct": [["userName", lit_str("bob")]]}},
        {"id": 2, "req": "default", "ty": b("i32"), "name": "plain"}]})
    sch = synthesize({"name": "dsl", "defs": defs})
    sch["no_keep"] = True
    return sch


if __name__ == "__main__":
    import sys
    for s in corpus(2, 1):
        print(render(s))
        print(json.dumps(s)[:400])


# ------------------------------------------------------------------ preparation for TLA+
def _limbs64(n):
    n &= (1 << 64) - 1
    return [(n >> (16 * i)) & 0xffff for i in range(4)]


def _lit_tla(l, consts, enums):
    if "const" in l:
        return _lit_tla(consts[l["const"]], consts, enums)
    if "enum" in l:
        en, mem = l["enum"].split(".")
        return {"l": _limbs64(dict(enums[en])[mem])}
    if "int" in l:
        out = {"l": _limbs64(int(l["int"]))}
        if "bits" in l:
            out["bits"] = l["bits"]
        else:
            out["bits"] = dbl_bits(int(l["int"]))
        return out
    if "bool" in l:
        return {"bool": bool(l["bool"]), "l": _limbs64(1 if l["bool"] else 0)}
    if "dbl" in l:
        return {"bits": l["bits"]}
    if "str" in l:
        return {"bytes": list(l["str"].encode("utf-8"))}
    if "list" in l:
        return {"list": [_lit_tla(x, consts, enums) for x in l["list"]]}
    if "map" in l:
        return {"map": [[_lit_tla(k, consts, enums), _lit_tla(v, consts, enums)] for k, v in l["map"]]}
    if "struct" in l:
        return {"struct": [[k, _lit_tla(v, consts, enums)] for k, v in l["struct"]]}
    raise ValueError(l)


def _ty_tla(t):
    if t == "void":
        return {"b": "void"}
    if "b" in t:
        return {"b": t["b"]}
    if "list" in t:
        return {"list": _ty_tla(t["list"])}
    if "set" in t:
        return {"set": _ty_tla(t["set"])}
    if "map" in t:
        return {"map": [_ty_tla(t["map"][0]), _ty_tla(t["map"][1])]}
    return {"ref": t["ref"].split(".")[-1]}


def for_tla(schema):
    """The schema as the TLA+ semantics consume it: annotations dropped (they do not change the wire
    format), literals pre-resolved (limbs / bytes / IEEE bits), services replaced by their synthesized types."""
    consts = {d["name"]: d["value"] for d in schema["defs"] if d["d"] == "const"}
    enums = {d["name"]: d["values"] for d in schema["defs"] if d["d"] == "enum"}
    defs = []
    for d in schema["defs"]:
        if d["d"] in ("service", "const"):
            continue
        if d["d"] in ("struct", "exception", "union"):
            fs = []
            for f in d["fields"]:
                g = {"id": f["id"], "req": f["req"], "ty": _ty_tla(f["ty"]), "name": f["name"]}
                if f.get("default") is not None:
                    g["default"] = _lit_tla(f["default"], consts, enums)
                fs.append(g)
            e = {"d": d["d"], "name": d["name"], "fields": fs}
            if d.get("voidok"):
                e["voidok"] = True
            if d.get("is_arg"):
                e["is_arg"] = True
            if d.get("synth"):
                e["synth"] = True
            defs.append(e)
        elif d["d"] == "enum":
            defs.append({"d": "enum", "name": d["name"], "values": [[n, v] for n, v in d["values"]]})
        elif d["d"] == "typedef":
            defs.append({"d": "typedef", "name": d["name"], "ty": _ty_tla(d["ty"])})
    return {"name": schema["name"], "defs": defs}
