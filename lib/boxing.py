"""Recursive type graphs for C14: spec/MCBoxing.tla explores the as-built boxing rule on every type graph over {A, B, T}
(14 976 graphs, 10 332 recursive), proves the characterisation of spec/Boxing.tla on all of them and writes each recursive
graph with its signature and the predicted outcome.  This module picks representatives per signature and renders them as IDL."""
import json, random
import common as c


def graphs(tier):
    path, st = c.cached_tlc_file("boxing-" + tier, "MCBoxing", [tier], {"VERIF_TIER": tier}, timeout=1800)
    return c.read_ndjson(path), st


def ty(m, union):
    n = "Td" if m["to"] == "T" else m["to"]
    return {"direct": n, "opt": n, "list": f"list<{n}>", "map": f"map<string, {n}>"}[m["via"]]


def render(g):
    out = []
    k, o = g["kind"], g["out"]
    # the typedef node is called Td in the IDL: a type named `T` collides with the generic parameter of the emitted code
    # (recorded finding C14-type-named-like-generic-parameter, which has its own single-shape document)
    out.append(f"typedef {o['T'][0]['to']} Td")
    for n in ("A", "B"):
        lines = []
        for i, m in enumerate(o[n]):
            opt = "optional " if (m["via"] == "opt" and k[n] == "struct") else ""
            lines.append(f"    {i + 1}: {opt}{ty(m, k[n] == 'union')} m{i + 1},")
        lines.append("    9: i32 pad," if k[n] == "struct" else "    9: i32 pad,")
        out.append(f"{k[n]} {n} {{\n" + "\n".join(lines) + "\n}")
    return "\n".join(out) + "\n"


def select(tier, seed):
    """(graph, predicted_ok, signature id) representatives: one per signature; quick = a seeded sample of signatures."""
    gs, st = graphs(tier)
    by = {}
    for r in gs:
        key = (r["ok"], json.dumps(sorted(r["sig"])))
        by.setdefault(key, r)
    keys = sorted(by)
    if tier == "quick":
        rnd = random.Random(seed)
        okk = [k for k in keys if k[0]]
        bad = [k for k in keys if not k[0]]
        rnd.shuffle(okk); rnd.shuffle(bad)
        keys = sorted(okk[:36] + bad[:12])
    return [(by[k]["g"], by[k]["ok"], i) for i, k in enumerate(keys)], {"graphs_explored": st, "recursive_graphs": len(gs), "signatures": len(by)}
