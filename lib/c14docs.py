"""Documents of the generator grammars G_thrift / G_proto for C14 (DESIGN.md 5): feature documents that
each stress one aspect of the generator, on top of the schema corpora.  A document is
{name, kind, files: {filename: text}, entry: filename, shape: tag, quarantine: known-finding id or None}."""
import schemas as S

KEYWORDS = ["type", "self", "Self", "super", "crate", "match", "async", "gen", "move", "ref", "fn", "impl", "loop", "mod", "pub", "box",
            "dyn", "enum", "struct", "trait", "where", "yield", "abstract", "final", "override", "try", "union", "static", "const", "use", "in", "as"]


def doc(name, text, kind="thrift", shape="", quarantine=None, extra=None):
    ext = "thrift" if kind == "thrift" else "proto"
    files = {f"{name}.{ext}": text}
    if extra:
        files.update(extra)
    return {"name": name, "kind": kind, "files": files, "entry": f"{name}.{ext}", "shape": shape or name, "quarantine": quarantine}


def thrift_docs():
    D = []
    # --- identifiers that are Rust keywords, as struct / field / enum / enum value / method / argument names
    kw_fields = "\n".join(f"    {i + 1}: optional i32 {k}," for i, k in enumerate(KEYWORDS) if k not in ("Self",))
    D.append(doc("kw_fields", f"struct KwFields {{\n{kw_fields}\n}}\n", shape="keyword-fields"))
    kw_structs = "\n".join(f"struct {k} {{ 1: i32 a }}" for k in ["type", "match", "async", "gen", "yield", "move", "ref", "fn", "impl", "box", "dyn", "trait", "where"])
    D.append(doc("kw_structs", kw_structs + "\nstruct UsesKw { 1: optional type t, 2: list<match> ms, 3: map<string, async> am }\n", shape="keyword-type-names"))
    D.append(doc("kw_enum", "enum Kw { type = 1, self = 2, match = 3, async = 4, crate = 5, super = 6, Self = 7 }\nstruct H { 1: Kw k = Kw.match }\n", shape="keyword-enum-values"))
    D.append(doc("kw_service", "struct R { 1: i32 a }\nservice match { R type(1: R self_, 2: i32 fn), void async(1: string loop), R gen() }\n", shape="keyword-service"))
    # --- names that collide after case conversion
    D.append(doc("case_collide", "struct foo_bar { 1: i32 a }\nstruct FooBar { 1: i32 a }\nstruct fooBar { 1: i32 a }\nstruct FOO_BAR { 1: i32 a }\n"
                 "struct U { 1: foo_bar a, 2: FooBar b, 3: fooBar c, 4: FOO_BAR d }\n", shape="case-collision-types"))
    D.append(doc("case_fields", "struct F { 1: i32 foo_bar, 2: i32 fooBar, 3: i32 FooBar, 4: i32 _x, 5: i32 __y, 6: i32 x_, 7: i32 X }\n", shape="case-collision-fields"))
    D.append(doc("case_enum", "enum E { foo_bar = 1, FooBar = 2, fooBar = 3, FOO_BAR = 4, A = 5, a = 6 }\n", shape="case-collision-enum-values"))
    D.append(doc("case_methods", "service S { void do_it(), void doIt(), void DoIt(), i32 get_x(1: i32 get_x), }\n", shape="case-collision-methods"))
    D.append(doc("kw_prefix", "const bool trueish = true\nconst i32 optionalFoo = 3\nstruct structure { 1: i32 i32x, 2: optional i32 required_id, 3: string listing, 4: string mapper }\n"
                 "enum constant { voidness = 1, oneway_ = 2 }\n", shape="keyword-prefix-identifiers"))
    # --- recursion
    D.append(doc("rec_opt", "struct A { 1: optional A next, 2: i32 v }\n", shape="recursive-optional"))
    D.append(doc("rec_req", "struct A { 1: required list<A> kids, 2: map<string, A> m, 3: set<i32> s }\n", shape="recursive-containers"))
    D.append(doc("rec_mut", "struct A { 1: optional B b }\nstruct B { 1: optional C c }\nstruct C { 1: optional A a, 2: list<B> bs }\n", shape="mutual-recursion"))
    D.append(doc("rec_union", "union U { 1: i32 n, 2: list<U> us, 3: map<string, U> m }\nstruct H { 1: U u }\n", shape="recursive-union-containers"))
    D.append(doc("rec_typedef", "struct A { 1: optional AList kids, 2: optional AAlias one }\ntypedef list<A> AList\ntypedef A AAlias\n", shape="recursion-through-typedef"))
    D.append(doc("rec_direct", "struct A { 1: required B b }\nstruct B { 1: optional A a }\n", shape="recursion-required-edge"))
    # --- container nesting to depth 3 with every key kind that maps to a hashable Rust type
    keys = ["bool", "byte", "i8", "i16", "i32", "i64", "string", "binary", "double"]
    lines = []
    n = 1
    for k in keys:
        lines.append(f"    {n}: map<{k}, i32> m_{k},")
        n += 1
        lines.append(f"    {n}: set<{k}> s_{k},")
        n += 1
    lines += [f"    {n}: list<list<list<i32>>> l3,", f"    {n+1}: map<string, list<map<i32, string>>> mlm,", f"    {n+2}: list<set<string>> ls,",
              f"    {n+3}: map<i32, map<i32, map<i32, i32>>> m3,", f"    {n+4}: set<list<i32>> sl,", f"    {n+5}: map<list<string>, i32> mlk,",
              f"    {n+6}: list<map<string, set<i64>>> lms,"]
    D.append(doc("containers", "struct Cn {\n" + "\n".join(lines) + "\n}\n", shape="container-nesting"))
    D.append(doc("struct_keys", "struct K { 1: i32 a, 2: string b }\nenum E { A = 1 }\nstruct H { 1: map<K, i32> m, 2: set<K> s, 3: map<E, K> e, 4: set<E> se, 5: map<K, list<K>> ml }\n", shape="struct-and-enum-keys"))
    # --- defaults of every literal kind
    D.append(doc("defaults", '''enum E { A = 1, B = 5 }
const i32 CI = 42
const string CS = "const str"
const double CD = 2.5
typedef i32 TI
typedef string TS
struct In { 1: i32 a = 1, 2: string s = "x" }
struct Df {
    1: i32 a = 7, 2: i64 b = 9223372036854775807, 3: i8 c = -128, 4: i16 d = 0x7f, 5: bool e = true, 6: bool f = 1, 7: bool g = 0,
    8: double h = 1.5, 9: double i = 2, 10: double j = -1.5e3, 11: string k = "dq", 12: string l = 'sq', 13: binary m = "bin",
    14: E n = E.B, 15: E o = 1, 16: i32 p = CI, 17: string q = CS, 18: double r = CD, 19: list<i32> s = [1, 2, 3], 20: set<string> t = ["a", "b"],
    21: map<string, i32> u = {"a": 1, "b": 2}, 22: map<string, list<i32>> v = {"k": [1, 2]}, 23: TI w = 5, 24: TS x = "td",
    25: optional i32 y = 3, 26: required i32 z = 4, 27: list<list<string>> aa = [["a"], []], 28: optional string ab = "",
    30: list<double> ad = [1, 2.5], 31: map<i32, bool> ae = {1: true, 2: false}, 32: uuid af,
}
''', shape="default-literals"))
    # --- annotations
    D.append(doc("annots", '''struct A { 1: i32 a }
struct An {
    1: required string f1 (pilota.rust_type = "string"), 2: required binary f2 (pilota.rust_type = "vec"),
    3: required map<string, i32> f3 (pilota.rust_type = "btree"), 4: required set<i32> f4 (pilota.rust_type = "btree"),
    5: required A f5 (pilota.rust_wrapper_arc = "true"), 6: required list<A> f6 (pilota.rust_wrapper_arc = "true"),
    7: required map<i32, list<A>> f7 (pilota.rust_type = "btree", pilota.rust_wrapper_arc = "true"),
    8: optional string f8 (pilota.name = "renamed"), 9: optional i32 f9 (other.tag = "x", go.tag = "json:\\"f9\\""),
} (pilota.name = "Annotated")
enum En { A = 1 (pilota.name = "Alpha"), B = 2 } (other = "y")
typedef map<set<i32>, string> TypeA (pilota.rust_type = "btree")
''', shape="annotations"))
    # --- exceptions, unions, services with extends / oneway / throws / void
    D.append(doc("services", '''exception E1 { 1: string message }
exception E2 { 1: i32 code, 2: optional string why }
union Un { 1: i32 a, 2: string b, 3: list<i32> c }
struct Rq { 1: required Un u, 2: optional E1 e }
service Base { void ping(), i32 add(1: i32 a, 2: i32 b) }
service Svc extends Base {
    Rq call(1: Rq rq, 2: optional string tag) throws (1: E1 e1, 2: E2 e2),
    oneway void fire(1: i32 n),
    void nothing() throws (1: E2 e),
    list<Rq> many(1: map<string, Rq> m),
    Un un(1: Un u),
    binary raw(1: binary b, 2: uuid u, 3: double d),
}
''', shape="services"))
    # --- cross-file includes and namespaces
    D.append(doc("inc_main", 'include "inc_a.thrift"\ninclude "inc_b.thrift"\nnamespace rs main.app\nstruct M { 1: inc_a.A a, 2: inc_b.B b, 3: list<inc_a.E> es, 4: inc_a.TA ta }\n'
                 'service S { inc_a.A get(1: inc_b.B b) throws (1: inc_a.X x) }\n', shape="includes",
                 extra={"inc_a.thrift": 'namespace rs lib.a\nstruct A { 1: i32 a }\nenum E { P = 1 }\ntypedef list<A> TA\nexception X { 1: string m }\n',
                        "inc_b.thrift": 'include "inc_a.thrift"\nnamespace rs lib.b\nstruct B { 1: optional inc_a.A a, 2: map<string, inc_a.E> m }\n'}))
    # --- quarantined single-shape documents: each exists only to exercise one recorded finding
    D.append(doc("btree_double", 'struct Q { 1: required map<string, double> m (pilota.rust_type = "btree") }\nstruct R { 1: optional Q q (pilota.rust_wrapper_arc = "true"), 2: list<map<i32, list<double>>> l (pilota.rust_type = "btree") }\n', shape="btree-map-with-double-value"))
    # the derive predicates must see through every list level (and through btree containers) down to a hash container / double
    D.append(doc("derive_vec_ladder", 'struct L { 1: list<list<map<i32, i32>>> a, 2: list<list<set<i32>>> b, 3: list<list<list<map<string, i32>>>> c,\n  4: list<list<double>> d, 5: list<list<list<double>>> e }\nunion U { 1: list<list<set<string>>> s, 2: list<list<double>> d }\nstruct M { 1: list<list<L>> ls, 2: U u }\n', shape="derive-through-list-levels"))
    D.append(doc("q_self_union", "union U { 1: U me, 2: i32 n }\n", shape="self-recursive-union-member", quarantine="C14-union-member-not-boxed"))
    D.append(doc("q_set_of_set", "struct Q { 1: set<set<i32>> a }\n", shape="hash-container-as-set-element", quarantine="C14-hash-container-not-hash"))
    D.append(doc("q_set_of_map", "struct Q { 1: set<map<string, i32>> a, 2: map<set<i32>, i32> b }\n", shape="hash-container-as-key", quarantine="C14-hash-container-not-hash"))
    D.append(doc("q_struct_key_double", "struct S { 1: list<double> d }\nstruct Q { 1: set<S> a }\n", shape="struct-with-double-as-key", quarantine="C14-struct-key-not-hash"))
    D.append(doc("q_struct_key_map", "struct S { 1: map<string, i32> d }\nstruct Q { 1: map<S, i32> a }\n", shape="struct-with-map-as-key", quarantine="C14-struct-key-not-hash"))
    D.append(doc("q_default_quote", "struct Q { 1: string s = 'say \"hi\"' }\n", shape="default-string-with-double-quote", quarantine="C14-default-literal-not-escaped"))
    D.append(doc("q_default_const_list", "const list<i32> CL = [1, 2]\nstruct Q { 1: list<i32> l = CL }\n", shape="default-references-container-const", quarantine="C14-default-container-const-panics"))
    D.append(doc("q_default_td_enum", "enum E { A = 1, B = 2 }\ntypedef E TE\nstruct Q { 1: TE e = E.B }\n", shape="default-enum-through-typedef"))
    D.append(doc("q_uuid_key", "struct Q { 1: set<uuid> s, 2: map<uuid, i32> m }\n", shape="uuid-as-set-element-or-key", quarantine="C14-uuid-key-by-reference"))
    # constants of struct type: every member listed / some left out (filled from Default, so not a constant expression) x member
    # kinds; in a list and as a map value.  Must compile without keep_unknown_fields (with it: the recorded finding below)
    D.append(doc("const_struct_literals", 'struct In { 1: i32 a = 1 }\nstruct P { 1: required i32 x, 2: required string label, 3: optional list<i32> tags, 4: In inner, 5: optional double d }\n'
                 'const P FULL = {"x": 1, "label": "o", "tags": [1, 2], "inner": {"a": 2}, "d": 1.5}\nconst P PARTIAL = {"label": "origin"}\nconst P PARTIAL2 = {"x": 5}\n'
                 'const P PARTIAL3 = {"x": 5, "label": "l"}\nconst In CI = {}\nconst In CJ = {"a": 7}\nconst list<P> PS = [{"x": 1}, {"label": "b"}]\nconst map<string, P> PM = {"k": {"x": 2}}\n'
                 'struct H { 1: P p = {"x": 3}, 2: In i = {"a": 4} }\n', shape="struct-literal"))
    D.append(doc("q_keep_struct_literal", "struct In { 1: i32 a = 1 }\nconst In CI = {\"a\": 2}\nstruct Q { 1: In i = {\"a\": 3} }\n", shape="struct-literal", quarantine="C14-struct-literal-misses-unknown-fields"))
    # names the emitted code itself uses
    D.append(doc("shadow_std_types", "struct Result { 1: i32 a }\nstruct Option { 1: i32 a }\nstruct String { 1: i32 a }\nstruct Vec { 1: i32 a }\nstruct Box { 1: i32 a }\n"
                 "struct Arc { 1: i32 a }\nstruct H { 1: Result r, 2: optional Option o, 3: list<String> ss, 4: map<string, Vec> vs, 5: optional H next, 6: Box b, 7: Arc c, 8: string txt, 9: list<string> l }\n",
                 shape="types-named-like-std"))
    D.append(doc("shadow_variants", "enum Maybe { Some = 1, None = 2, Ok = 3, Err = 4, Default = 5 }\nstruct H { 1: Maybe m = Maybe.None, 2: optional Maybe o }\nunion U { 1: i32 Ok, 2: string Err, 3: H Some }\n",
                 shape="variants-named-like-prelude"))
    D.append(doc("special_fields", "struct F { 1: i32 default, 2: i32 new, 3: i32 pilota, 4: i32 __protocol, 5: i32 protocol, 6: i32 ret, 7: i32 value, 8: i32 field_ident, 9: i32 err, 10: optional i32 size, 11: i32 encode, 12: i32 decode }\n",
                 shape="fields-named-like-locals"))
    D.append(doc("special_methods", "struct R { 1: i32 a }\nservice S { R new(1: R default), void default(1: i32 new), R encode(1: R decode), void size() }\n", shape="methods-named-like-trait-items"))
    D.append(doc("typedef_message", "typedef i32 Message\ntypedef string Default\nstruct H { 1: Message m, 2: Default d }\n", shape="typedefs-named-like-traits"))
    # derive(Hash, Eq, Ord) over cycles that close through an Arc wrapper or a btree container: the cycle partner is decided
    # "later" while the first struct turns out not to derive (it holds a double); the later decision must follow
    D.append(doc("derive_cycle_arc", 'struct A { 1: B b, 2: C c }\nstruct B { 1: optional A a (pilota.rust_wrapper_arc="true") }\nstruct C { 1: double d }\n',
                 shape="derive-cycle-through-arc"))
    D.append(doc("derive_cycle_btree", 'struct A { 1: B b, 2: C c }\nstruct B { 1: map<i32, A> m (pilota.rust_type = "btree") }\nstruct C { 1: double d }\n',
                 shape="derive-cycle-through-btree"))
    D.append(doc("q_type_named_t", "struct T { 1: i32 a }\nstruct H { 1: T t, 2: list<T> ts }\n", shape="type-named-T", quarantine="C14-type-named-like-generic-parameter"))
    D.append(doc("q_empty_enum", "enum Err {\n}\nstruct Q { 1: Err e }\n", shape="empty-enum", quarantine=None))
    D[-1]["outside_grammar"] = True   # G_thrift requires at least one enum value
    return D


def proto_docs():
    D = []
    D.append(doc("pb_kw", 'syntax = "proto3";\nmessage type { int32 match = 1; string async = 2; repeated int32 self = 3; map<string, int32> gen = 4; }\n'
                 'message Uses { type t = 1; oneof crate { int32 fn = 2; string impl = 3; } }\nenum Kw { KW_ZERO = 0; type_ = 1; }\n', kind="proto", shape="pb-keywords"))
    D.append(doc("pb_nested", 'syntax = "proto3";\nmessage A { message B { message C { int32 x = 1; } C c = 1; enum E { E0 = 0; } E e = 2; } B b = 1; B.C c = 2; repeated B.E es = 3; map<int32, B> m = 4; }\n'
                 'message D { A.B.C c = 1; A a = 2; D self_ = 3; repeated D kids = 4; }\n', kind="proto", shape="pb-nested"))
    D.append(doc("pb_proto2", 'syntax = "proto2";\nmessage P2 { required int32 a = 1; optional string b = 2 [default = "dflt"]; repeated sint64 c = 3 [packed = true]; optional int32 d = 4 [default = 7];\n'
                 ' optional bool e = 5 [default = true]; enum En { X = 1; Y = 2; } optional En f = 6 [default = Y]; repeated En g = 7; map<string, P2> h = 8; }\n', kind="proto", shape="pb-proto2"))
    D.append(doc("pb_service", 'syntax = "proto3";\nmessage Rq { int32 a = 1; }\nmessage Rs { string b = 1; }\n'
                 'service Svc { rpc Unary(Rq) returns (Rs); rpc ClientS(stream Rq) returns (Rs); rpc ServerS(Rq) returns (stream Rs); rpc Bidi(stream Rq) returns (stream Rs); }\n', kind="proto", shape="pb-service"))
    D.append(doc("pb_msg_named_b", 'syntax = "proto3";\nmessage B { int32 a = 1; }\nmessage T { B b = 1; }\nmessage H { B b = 1; T t = 2; repeated B bs = 3; map<string, T> m = 4; }\n', kind="proto", shape="pb-message-named-B-T"))
    D.append(doc("q_pb_oneof_rec", 'syntax = "proto3";\nmessage R { int32 a = 1; oneof pick { R me = 2; string s = 3; } }\n', kind="proto", shape="pb-recursive-oneof-member", quarantine="C14-oneof-recursive-member"))
    D.append(doc("pb_scalars", 'syntax = "proto3";\npackage a.b.c;\nmessage All { double f1 = 1; float f2 = 2; int32 f3 = 3; int64 f4 = 4; uint32 f5 = 5; uint64 f6 = 6; sint32 f7 = 7; sint64 f8 = 8;\n'
                 ' fixed32 f9 = 9; fixed64 f10 = 10; sfixed32 f11 = 11; sfixed64 f12 = 12; bool f13 = 13; string f14 = 14; bytes f15 = 15;\n'
                 ' repeated double r1 = 21; repeated bytes r15 = 35; optional int32 o3 = 43; optional string o14 = 54; optional All rec = 60;\n'
                 ' oneof pick { double p1 = 71; bytes p15 = 85; sint64 p8 = 78; } map<bool, bytes> m1 = 90; map<sfixed64, All> m2 = 91; int32 big = 536870911; }\n', kind="proto", shape="pb-all-scalars"))
    return D
