"""Turn the transition table emitted by MCThriftProto (one JSON file per distinct state: the state
and its enabled steps) into call sequences that start in the initial state and together take
every transition at least once (one implementation test per transition), plus seeded random walks."""
import collections, glob, json, os, random


def key(state):
    return json.dumps(state, sort_keys=True, separators=(",", ":"))


def load_table(d):
    table = {}
    for f in glob.glob(os.path.join(d, "s*.json")):
        j = json.load(open(f))
        steps = j["steps"] if isinstance(j["steps"], list) else []
        table[key(j["pre"])] = (j["pre"], steps)
    return table


def tours(table, init_key, max_len=60, seed=0, extra_random=0):
    """Greedy transition tour: from the initial state walk to the nearest state that still has an
    untaken transition (BFS over the table), take untaken transitions while possible, stop at
    max_len and start again from the initial state with fresh protocol objects."""
    rnd = random.Random(seed)
    untaken = {k: set(range(len(v[1]))) for k, v in table.items()}
    total = sum(len(v) for v in untaken.values())
    remaining = total
    succ = {k: [key(s["post"]) for s in v[1]] for k, v in table.items()}
    walks = []
    while remaining > 0:
        cur = init_key
        walk = []
        while len(walk) < max_len:
            if untaken[cur]:
                i = rnd.choice(sorted(untaken[cur]))
                untaken[cur].discard(i)
                remaining -= 1
                walk.append(table[cur][1][i])
                cur = succ[cur][i]
                continue
            # BFS to the nearest state with an untaken transition
            prev = {cur: None}
            q = collections.deque([cur])
            goal = None
            while q:
                x = q.popleft()
                if untaken[x]:
                    goal = x
                    break
                for i, y in enumerate(succ[x]):
                    if y not in prev:
                        prev[y] = (x, i)
                        q.append(y)
            if goal is None:
                break
            path = []
            x = goal
            while prev[x] is not None:
                px, i = prev[x]
                path.append((px, i))
                x = px
            path.reverse()
            if len(walk) + len(path) >= max_len and walk:
                break
            for px, i in path:
                walk.append(table[px][1][i])
            cur = goal
        if not walk:
            break
        walks.append(walk)
    for _ in range(extra_random):
        cur = init_key
        walk = []
        for _ in range(max_len):
            if not table[cur][1]:
                break
            i = rnd.randrange(len(table[cur][1]))
            walk.append(table[cur][1][i])
            cur = succ[cur][i]
        walks.append(walk)
    return walks, total


def write_walks(walks, path):
    with open(path, "w") as f:
        for n, w in enumerate(walks):
            steps = [{"op": s["op"], "calls": s["calls"], "bytes": s["bytes"],
                      "w": s["post"]["w"], "l": s["post"]["l"], "r": s["post"]["r"]} for s in w]
            f.write(json.dumps({"id": n, "steps": steps}, separators=(",", ":")) + "\n")
