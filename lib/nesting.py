"""Nesting generators for the totality properties (fault action Nest(kind, depth)): encodings of a value
nested `depth` levels deep through one kind of composite, in binary / little-endian binary / compact.
Purely mechanical byte construction from the wire formats (spec/ThriftBinary.tla, spec/ThriftCompact.tla);
the quick tier cross-checks small depths against the TLC-evaluated `deep` vectors (lib/checks/c09.py)."""

KINDS = ("struct", "list", "set", "mapval", "mapkey", "list-struct", "rec1")
WIRE = {"struct": 12, "list": 15, "set": 14, "mapval": 13, "mapkey": 13, "list-struct": 15, "rec1": 12}


def _i32(n, le):
    b = [(n >> 24) & 255, (n >> 16) & 255, (n >> 8) & 255, n & 255]
    return b[::-1] if le else b


def _i16(n, le):
    b = [(n >> 8) & 255, n & 255]
    return b[::-1] if le else b


def binary(kind, depth, le=False):
    """(prefix repeated per level, innermost value, suffix repeated per level)"""
    if kind == "struct":
        pre, core, suf = [12] + _i16(1, le), [0], [0]
    elif kind == "list":
        pre, core, suf = [15] + _i32(1, le), [3] + _i32(0, le), []
    elif kind == "set":
        pre, core, suf = [14] + _i32(1, le), [3] + _i32(0, le), []
    elif kind == "mapval":
        pre, core, suf = [3, 13] + _i32(1, le) + [0], [3, 3] + _i32(0, le), []
    elif kind == "mapkey":
        pre, core, suf = [13, 3] + _i32(1, le), [3, 3] + _i32(0, le), [0]
    elif kind == "list-struct":       # list<struct{1: list<struct{...}>}>
        pre, core, suf = [12] + _i32(1, le) + [15] + _i16(1, le), [12] + _i32(0, le), [0]
    elif kind == "rec1":              # struct Rec1 {1: required i8 v, 2: optional Rec1 next}
        pre, core, suf = [3] + _i16(1, le) + [0, 12] + _i16(2, le), [3] + _i16(1, le) + [0, 0], [0]
    else:
        raise ValueError(kind)
    return {"pre": pre, "core": core, "suf": suf, "n": depth}


def compact(kind, depth):
    if kind == "struct":
        pre, core, suf = [0x1c], [0], [0]
    elif kind == "list":
        pre, core, suf = [0x19], [0x03], []
    elif kind == "set":
        pre, core, suf = [0x1a], [0x03], []
    elif kind == "mapval":
        pre, core, suf = [1, 0x3b, 0], [0], []
    elif kind == "mapkey":
        pre, core, suf = [1, 0xb3], [0], [0]
    elif kind == "list-struct":
        pre, core, suf = [0x1c, 0x19], [0x0c], [0]
    elif kind == "rec1":
        pre, core, suf = [0x13, 0, 0x1c], [0x13, 0, 0], [0]
    else:
        raise ValueError(kind)
    return {"pre": pre, "core": core, "suf": suf, "n": depth}


def flat(v):
    return v.get("head", []) + v["pre"] * v["n"] + v["core"] + v["suf"] * v["n"] + v.get("tail", [])


def size(v):
    return len(v.get("head", [])) + (len(v["pre"]) + len(v["suf"])) * v["n"] + len(v["core"]) + len(v.get("tail", []))


def value(kind, depth, proto):
    if proto == "compact":
        return compact(kind, depth)
    return binary(kind, depth, le=(proto == "binle"))


def as_unknown_field(kind, depth, proto, fid=30000):
    """A struct that holds the nested value in a field no schema declares, then stop."""
    t = WIRE[kind]
    v = value(kind, depth, proto)
    if proto == "compact":
        ct = {12: 12, 15: 9, 14: 10, 13: 11}[t]
        z = (fid << 1)
        vi = []
        while True:
            b7 = z & 0x7f
            z >>= 7
            if z:
                vi.append(b7 | 0x80)
            else:
                vi.append(b7)
                break
        return dict(v, head=[ct] + vi, tail=[0])
    return dict(v, head=[t] + _i16(fid, proto == "binle"), tail=[0])
