"""Fault enumeration for C16 (the Thrift IDL parser is total).  Mechanical: every fault is an
action of DESIGN.md 3.9 applied to the token sequences TLC printed for C15 (spec/MCIdl.tla), or a
nesting / random generator; every random choice derives from VERIF_SEED.

  token level (on the default and the tight layout of a document):
     delete(i), duplicate(i), replace(i, t) with t another token of the document or a keyword /
     punctuation / oversized number of POOL, inflate(i, n) for every integer token (field ids, enum
     values, constant values, also inside doubles' exponents) to n in {10, 11, 20, 40} digits,
     unterminated `/*`, `"` or `'` in front of token i, a literal without its closing quote
  byte level: every prefix of the text (truncation at every offset)
  nesting: list<list<..>>, set, map value / key nesting, mixed containers, in typedef / field /
     argument / return position; constant list / map literals (value and key nesting, unbalanced
     openers), sign runs ----1 in constants, enum values and exponents; depth 1..64 is judged,
     deeper probes are run for information (where the 2 MiB stack actually ends)
  random: printable soups, token soups, arbitrary bytes (bytes that are not UTF-8 cannot be passed
     to File::parse(&str); they are counted, not judged)

`run` drives `drive idl-faults` (each parse on a 2 MiB thread) with crash attribution: the harness
flushes {"start": id} before a case; when the process dies the case that was started is the
culprit and the harness is restarted behind it."""
import json, os, random, re, subprocess
import common as c
import idl

POOL = idl.KEYWORDS + ["{", "}", "(", ")", "[", "]", "<", ">", ":", "=", ",", ";", ".", "*", "-", "+", "\"", "'", "/", "#", "\\",
                       "//", "/*", "*/", "0x", "1e", "99999999999", "-99999999999999999999", "0x" + "f" * 17, "1.5e99999999999", "_", "é",
                       "中", "\x00", "\t"]
INFLATE = (10, 11, 20, 40)
# lexical units for the long-run fault: every punctuation / sign / quote character, a digit, a letter, blanks, and the comment forms
# (opening brackets are left out: a run of them IS nesting, which the nesting generators judge up to depth 64)
RUN_UNITS = ["-", "+", ")", "]", "}", ">", ",", ";", ":", "=", ".", "*", "/", "#", "\\", "_", "9", "a", " ", "\n",
             "#\n", "//\n", "/**/", "/**/ ", "# c\n ", "- ", "-+", "0x", "1e", "a.", "a,", "''", '""']
JUDGED_DEPTH = int(os.environ.get("VERIF_IDL_JUDGED_DEPTH", "64"))     # the override exists for the sensitivity run only


def is_int_token(t):
    return re.fullmatch(r"[-+]?(0x[0-9a-fA-F]+|\d+)", t["s"]) is not None


def inflations(s):
    sign = s[0] if s[0] in "+-" else ""
    body = s[len(sign):]
    out = []
    for n in INFLATE:
        if body.startswith("0x"):
            out.append((n, sign + "0x" + "f" * n))
            out.append((n, sign + "0x1" + "0" * (n - 1)))
        else:
            out.append((n, sign + "9" * n))
            out.append((n, sign + "1" + "0" * (n - 1)))
    return out


# ----------------------------------------------------------------------------- nesting generators
def nest_generators():
    g = {}
    g["typedef list<..>"] = lambda d: "typedef " + "list<" * d + "i32" + ">" * d + " T"
    g["typedef set<..>"] = lambda d: "typedef " + "set<" * d + "string" + ">" * d + " T"
    g["typedef map<string, map<..>>"] = lambda d: "typedef " + "map<string, " * d + "i32" + ">" * d + " T"
    g["typedef map<map<..>, i32>"] = lambda d: "typedef " + "map<" * d + "i8" + ", i32>" * d + " T"
    g["typedef list<map<set<..>>> mixed"] = lambda d: "typedef " + "".join(("list<", "map<string,", "set<")[i % 3] for i in range(d)) + "i64" + ">" * d + " T"
    g["field type"] = lambda d: "struct S { 1: optional " + "list<" * d + "i32" + ">" * d + " f }"
    g["argument and return type"] = lambda d: "service V { " + "list<" * d + "i32" + ">" * d + " m(1: " + "set<" * d + "i32" + ">" * d + " a) }"
    g["type with spaced brackets"] = lambda d: "typedef " + "list < " * d + "i32" + " >" * d + " T"
    g["unclosed type"] = lambda d: "typedef " + "list<" * d + "i32 T"
    g["const list [[..]]"] = lambda d: "const X c = " + "[" * d + "1" + "]" * d
    g["const list with separators"] = lambda d: "const X c = " + "[ " * d + "1" + ", ]" * d
    g["const map value {1:{..}}"] = lambda d: "const X c = " + "{1:" * d + "1" + "}" * d
    g["const map key {{..}:1}"] = lambda d: "const X c = " + "{" * d + "1" + ":1}" * d
    g["const mixed [{..}]"] = lambda d: "const X c = " + "".join(("[", "{'k':")[i % 2] for i in range(d)) + "'v'" + "".join(("]", "}")[i % 2] for i in reversed(range(d)))
    g["field default [[..]]"] = lambda d: "struct S { 1: X f = " + "[" * d + "true" + "]" * d + " }"
    g["unbalanced ["] = lambda d: "const X c = " + "[" * d
    g["unbalanced {"] = lambda d: "const X c = " + "{" * d
    g["unbalanced [ then ]"] = lambda d: "const X c = " + "[" * d + "1" + "]" * (d - 1)
    g["sign run ----1"] = lambda d: "const i32 c = " + "-" * d + "1"
    g["sign run in enum value"] = lambda d: "enum E { A = " + "-" * d + "1 }"
    g["sign run in exponent"] = lambda d: "const double c = 1e" + "-" * d + "5"
    g["sign run before hex"] = lambda d: "const i32 c = " + "-" * d + "0x10"
    g["nested block comment openers"] = lambda d: "/*" * d + " c " + "*/" * d + " struct S {}"
    g["parenthesis run"] = lambda d: "struct S { 1: i32 f " + "(" * d + "a = 'b'" + ")" * d + " }"
    return g


def depths(tier):
    if tier == "thorough":
        return list(range(1, JUDGED_DEPTH + 1)), [65, 80, 96, 128, 192, 256, 384, 512, 768, 1024, 2048, 4096, 16384]
    return [1, 2, 3, 8, 16, 32, 48, 56, 60, 62, 63, 64], [65, 128, 256, 512, 1024, 4096]


# ----------------------------------------------------------------------------- enumeration
def enumerate_faults(docs, tier, seed):
    rng = random.Random(seed)
    cases, meta = [], []

    def add(m, text=None, pieces=None, raw=None):
        i = len(cases)
        if pieces is not None:
            cases.append({"id": i, "p": pieces})
        elif raw is not None:
            cases.append({"id": i, "bytes": list(raw)})
        else:
            cases.append({"id": i, "text": text})
        m["id"] = i
        meta.append(m)

    thorough = tier == "thorough"
    for d, doc in docs.items():
        toks = doc["toks"]
        n = len(toks)
        full = doc["mode"] == "full"
        if n == 0:
            continue
        bases = [("default", doc["layouts"][0]["p"])]
        if thorough or full:
            bases.append(("tight", doc["layouts"][1]["p"]))
        # light documents: the systematic products; all of them get number inflation, a seeded sample gets the rest
        sampled = full or thorough or rng.random() < 0.08
        for bname, base in bases:
            printed = [i for i in range(1, n + 1) if base[2 * i - 1] != ""]
            texts = [base[2 * i - 1] for i in printed]

            def mut(kind, i, new, extra=None):
                p = list(base)
                p[2 * i - 1] = new
                m = {"fault": kind, "doc": doc["name"], "base": bname, "tok": i, "role": toks[i - 1]["r"], "was": base[2 * i - 1]}
                if extra:
                    m.update(extra)
                add(m, pieces=p)

            for i in printed:
                t = toks[i - 1]
                s = base[2 * i - 1]
                if is_int_token(dict(s=s)):
                    for nd, v in inflations(s):
                        mut("number-inflate", i, v, {"digits": nd})
                elif t["x"] and re.search(r"[eE][-+]?\d+$", s):
                    for nd in INFLATE:
                        mut("number-inflate", i, re.sub(r"\d+$", "9" * nd, s), {"digits": nd, "part": "exponent"})
                        mut("number-inflate", i, re.sub(r"^([-+]?)\d*", lambda mm: mm.group(1) + "9" * nd, s, count=1), {"digits": nd, "part": "mantissa"})
                if not sampled:
                    continue
                mut("delete", i, "")
                mut("duplicate", i, s + " " + s)
                reps = POOL if (thorough and full) else rng.sample(POOL, 8 if full else 3)
                for r in reps:
                    if r != s:
                        mut("replace", i, r, {"by": r})
                others = sorted(x for x in set(texts) if x != s)
                for r in rng.sample(others, min(len(others), 6 if thorough else 2)):
                    mut("replace-by-document-token", i, r, {"by": r})
                mut("unterminated-comment", i, "/* " + s)
                mut("unterminated-quote", i, "\"" + s)
                mut("unterminated-quote", i, "'" + s)
                if t["c"] == "l":
                    mut("literal-without-closing-quote", i, s[:-1])
                    mut("literal-without-opening-quote", i, s[1:])
            if sampled and (full or thorough or bname == "default"):
                text = "".join(base).encode()
                for k in range(len(text)):
                    add({"fault": "truncate", "doc": doc["name"], "base": bname, "at": k}, raw=text[:k])

    # long runs: one lexical unit repeated until the text is just under 64 KiB, in front of a token of a valid document (a
    # parser that handles a repeated prefix by recursing once per repetition exhausts its stack without any NESTING at all)
    full_docs = [doc for doc in docs.values() if doc["mode"] == "full" and doc["toks"]]
    seen_roles = set()
    for doc in full_docs:
        base = doc["layouts"][0]["p"]
        n = len(doc["toks"])
        printed = [i for i in range(1, n + 1) if base[2 * i - 1] != ""]
        if not thorough:
            # one token per role over all full documents (what may start at a position depends on the role of the token there)
            by_role = {}
            for i in printed:
                r = doc["toks"][i - 1]["r"]
                if r not in seen_roles:
                    by_role.setdefault(r, i)
            seen_roles |= set(by_role)
            printed = sorted(by_role.values())
        for i in printed:
            pre = "".join(base[: 2 * i - 1])
            post = "".join(base[2 * i - 1:])
            room = 64 * 1024 - 16 - len(pre.encode()) - len(post.encode())
            for unit in RUN_UNITS:
                k = room // len(unit.encode())
                if k < 10:
                    continue
                m = {"fault": "long-run", "doc": doc["name"], "tok": i, "role": doc["toks"][i - 1]["r"], "unit": unit, "times": k}
                j = len(cases)
                cases.append({"id": j, "pre": pre, "unit": unit, "n": k, "post": post})
                m["id"] = j
                meta.append(m)

    judged, probes = depths(tier)
    for name, gen in nest_generators().items():
        for dp in judged + probes:
            add({"fault": "nesting", "gen": name, "depth": dp, "judged": dp <= JUDGED_DEPTH}, text=gen(dp))

    nrand = 20000 if thorough else 2500
    alphabet = "abcxyz_019 \n\t{}()[]<>:=,;.*-+\"'/#\\eE" + "é中"
    for k in range(nrand):
        ln = rng.choice((1, 2, 3, 5, 8, 13, 40, 120))
        add({"fault": "random-printable", "n": k}, text="".join(rng.choice(alphabet) for _ in range(ln)))
    toks_pool = POOL + ["1", "2", "i32", "S", "a.b", "'x'", "\"y\"", "-1", "1.5", " ", "\n", "// c\n", "/* c */", "# c\n"]
    for k in range(nrand):
        ln = rng.choice((1, 2, 3, 5, 8, 13, 30))
        sep = rng.choice(("", " ", " ", "\n"))
        add({"fault": "random-token-soup", "n": k}, text=sep.join(rng.choice(toks_pool) for _ in range(ln)))
    for k in range(nrand // 2):
        ln = rng.choice((1, 2, 4, 16, 64))
        add({"fault": "random-bytes", "n": k}, raw=bytes(rng.randrange(256) for _ in range(ln)))
    # a valid head followed by random bytes that are valid UTF-8
    heads = ["struct S { 1: ", "const i32 c = ", "enum E { A = ", "service V { void m(", "typedef ", "namespace ", "include ", "struct S { 1: i32 f ("]
    for k in range(nrand // 2):
        tail = bytes(rng.randrange(256) for _ in range(rng.choice((1, 2, 4, 12)))).decode("utf-8", "ignore")
        add({"fault": "valid-head-random-tail", "n": k}, text=rng.choice(heads) + tail)
    return cases, meta


# ----------------------------------------------------------------------------- running
def run(cases, tag, chunk=20000):
    """{id: result}; result["res"] in ok | err | not_utf8 | panic | hang | crash."""
    res = {}
    restarts = 0
    for a in range(0, len(cases), chunk):
        part = cases[a:a + chunk]
        reqp = os.path.join(c.OUT, f"idlfaults-{tag}-{os.getpid()}.ndjson")
        outp = reqp + ".out"
        c.write_ndjson(reqp, part)
        skip = part[0]["id"]
        last = part[-1]["id"]
        while skip <= last:
            if os.path.exists(outp):
                os.remove(outp)
            try:
                p = subprocess.run([idl.drive_bin(), "idl-faults", reqp, outp, str(skip)], stdout=subprocess.PIPE, stderr=subprocess.PIPE,
                                   timeout=600 + len(part) * 0.02)
                rc, err = p.returncode, p.stderr.decode("utf-8", "replace")
            except subprocess.TimeoutExpired:
                rc, err = -9, "harness timeout"
            started, done = None, False
            if os.path.exists(outp):
                for l in open(outp, encoding="utf-8", errors="replace"):
                    try:
                        j = json.loads(l)
                    except Exception:
                        continue
                    if "start" in j:
                        started = j["start"]
                    elif j.get("kind") == "summary":
                        done = True
                    elif "id" in j:
                        res[j["id"]] = j
                        if started == j["id"] and j["res"] != "hang":
                            started = None
            if done:
                break
            if started is None:
                raise c.ToolError(f"drive idl-faults died without a started case (rc={rc}): {err[-500:]}")
            if started not in res:
                res[started] = {"id": started, "res": "crash", "rc": rc,
                                "stack_overflow": "overflowed its stack" in err or "stack overflow" in err, "stderr": err.strip()[-300:]}
            skip = started + 1
            restarts += 1
            if restarts > 3000:
                raise c.ToolError("drive idl-faults keeps crashing")
        for f in (reqp, outp):
            if os.path.exists(f):
                os.remove(f)
    return res, restarts


def case_text(case):
    if "unit" in case:
        return case["pre"] + case["unit"] * case["n"] + case["post"]
    if "p" in case:
        return "".join(case["p"])
    if "text" in case:
        return case["text"]
    return bytes(case["bytes"]).decode("utf-8", "replace")
