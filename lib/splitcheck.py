"""Split mode against single-file mode (builder option `split_generated_files`): the files of the split output, include!
lines resolved, hold exactly the items of the single-file output -- the invariant SplitIsPartition / SplitNamesDistinct of
spec/CodegenPipeline.tla observed on the real builder.  With it, everything the generated-code checks establish on the
single-file output holds for the split output too (the item texts are the same token for token)."""
import os, re, shutil, tempfile
import common as c
import gen


def norm(s):
    return re.sub(r"\s+", "", s)


INC = re.compile(r'include!\("([^"]+)"\);')
WRAP = re.compile(r"^(pubmod(r#)?\w+\{|#!\[allow\(warnings,clippy::all\)\]|\})*$")


def item_files(path, base, out):
    """(module dir, file name, normalised text) of every item file reachable from `path` through include! lines."""
    txt = open(path).read()
    for m in INC.finditer(txt):
        p = os.path.join(base, m.group(1))
        if os.path.basename(p) == "mod.rs":
            item_files(p, os.path.dirname(p), out)
        else:
            out.append((os.path.dirname(p), os.path.basename(p), norm(open(p).read())))
    return out


def check(kind, idl, include=None, keep=False):
    """Returns a list of (classification, replay) problems for one document."""
    td = tempfile.mkdtemp(prefix="split-", dir=c.OUT)
    try:
        us = gen.Unit("single", idl, kind=kind, keep=keep, include=include)
        up = gen.Unit("split", idl, kind=kind, keep=keep, split=True, include=include)
        # the builder formats what it wrote with $RUSTFMT, and rustfmt lays the same tokens out differently at different
        # depths (closure braces, trailing commas): both runs skip formatting, so the raw emitted token text is compared
        env = {"RUSTFMT": "/bin/true"}
        gen.run_builder(us, td, env=env)
        gen.run_builder(up, td, env=env)
        if not us.ok or not up.ok:
            if us.ok != up.ok:
                return [({"check": "split-builder-differs", "kind": kind}, {"idl": idl, "single_ok": us.ok, "split_ok": up.ok, "output": (us.output + up.output)[-1500:]})], 0
            return [], 0      # the builder refuses the document either way: C14's business
        single = norm(open(os.path.join(td, "single.rs")).read())
        files = item_files(os.path.join(td, "split.rs"), td, [])
        probs = []
        seen = {}
        for d, f, t in files:
            k = (d, f.lower())
            if k in seen:
                probs.append(({"check": "split-file-name-collision", "kind": kind}, {"idl": idl, "module_dir": os.path.relpath(d, td), "names": [seen[k], f]}))
            seen[k] = f
        rest = single
        lost = []
        for d, f, t in sorted(files, key=lambda x: -len(x[2])):      # longest first: an item text may contain a shorter one
            if t in rest:
                rest = rest.replace(t, "", 1)
            else:
                lost.append(os.path.join(os.path.relpath(d, td), f))
        if lost:
            probs.append(({"check": "split-item-not-in-single", "kind": kind}, {"idl": idl, "files": lost[:10], "keep_unknown_fields": keep}))
        rest = re.sub(r"pubmodsingle\{", "pubmodsplit{", rest, 1)
        if not WRAP.match(rest):
            probs.append(({"check": "single-item-not-in-split", "kind": kind}, {"idl": idl, "residue": rest[:600], "keep_unknown_fields": keep}))
        return probs, len(files)
    finally:
        shutil.rmtree(td, ignore_errors=True)
