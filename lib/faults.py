"""Fault actions over valid encodings (DESIGN.md 3.9 / 6-C09): every truncation point, single-bit
flips, and every length / count / type / id position of the TLC-supplied encoding map overwritten
with boundary values."""
import random, struct


def boundary_values(width, remaining, le=False):
    """(-1, 0, 1, remaining-1, remaining+1, i32::MAX, u32::MAX) rendered in `width` bytes."""
    vals = [-1, 0, 1, max(0, remaining - 1), remaining + 1, 2**31 - 1, 2**32 - 1]
    out = []
    for v in vals:
        if width == 4:
            b = (v & 0xffffffff).to_bytes(4, "little" if le else "big")
        elif width == 2:
            b = (v & 0xffff).to_bytes(2, "little" if le else "big")
        else:
            b = bytes([v & 0xff])
        out.append((v, list(b)))
    return out


def varint(n):
    out = []
    n &= 0xffffffff
    while True:
        b = n & 0x7f
        n >>= 7
        if n:
            out.append(b | 0x80)
        else:
            out.append(b)
            return out


def faults(enc, marks, proto, rnd, max_flips=None):
    """Yield (kind, detail, bytes) for one valid encoding."""
    n = len(enc)
    for k in range(n):
        yield ("truncate", k, enc[:k])
    flips = [(k, b) for k in range(n) for b in range(8)]
    if max_flips is not None and len(flips) > max_flips:
        flips = rnd.sample(flips, max_flips)
    for k, b in flips:
        m = list(enc)
        m[k] ^= 1 << b
        yield ("bitflip", [k, b], m)
    for mk in marks:
        pos, w, kind = mk["pos"], mk["w"], mk["kind"]
        remaining = n - (pos + w)
        if proto == "compact" and kind in ("len", "count", "id"):
            for v in (0, 1, max(0, remaining - 1), remaining + 1, 2**31 - 1, 2**32 - 1):
                m = enc[:pos] + varint(v) + enc[pos + w:]
                yield ("overwrite-" + kind, [pos, v], m)
            # an over-long varint (all continuation bits)
            yield ("overwrite-" + kind, [pos, "unterminated"], enc[:pos] + [0xff] * 11 + enc[pos + w:])
        elif kind in ("len", "count", "id") or w > 1:
            for v, bs in boundary_values(w, remaining, le=(proto == "binle")):
                yield ("overwrite-" + kind, [pos, v], enc[:pos] + bs + enc[pos + w:])
        else:
            for v in (0, 1, 5, 12, 13, 15, 16, 17, 0x7f, 0xff):
                m = list(enc)
                m[pos] = v
                yield ("overwrite-type", [pos, v], m)
