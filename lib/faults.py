"""Fault actions over valid encodings (DESIGN.md 3.9 / 6-C09): every truncation point, single-bit
flips, and every length / count / type / id position of the TLC-supplied encoding map overwritten
with boundary values."""
import random, struct


def boundary_values(width, remaining, le=False):
    """(-1, 0, 1, remaining-1, remaining+1, i32::MAX, u32::MAX) rendered in `width` bytes."""
    vals = [-1, 0, 1, max(0, remaining - 1), remaining + 1, 2**31 - 1, 2**32 - 1]
    out = []
    for v in vals:
        if width == 4:
            b = (v & 0xffffffff).to_bytes(4, "little" if le else "big")
        elif width == 2:
            b = (v & 0xffff).to_bytes(2, "little" if le else "big")
        else:
            b = bytes([v & 0xff])
        out.append((v, list(b)))
    return out


def varint(n):
    out = []
    n &= 0xffffffff
    while True:
        b = n & 0x7f
        n >>= 7
        if n:
            out.append(b | 0x80)
        else:
            out.append(b)
            return out


def faults(enc, marks, proto, rnd, max_flips=None):
    """Yield (kind, detail, bytes) for one valid encoding."""
    n = len(enc)
    for k in range(n):
        yield ("truncate", k, enc[:k])
    flips = [(k, b) for k in range(n) for b in range(8)]
    if max_flips is not None and len(flips) > max_flips:
        flips = rnd.sample(flips, max_flips)
    for k, b in flips:
        m = list(enc)
        m[k] ^= 1 << b
        yield ("bitflip", [k, b], m)
    for mk in marks:
        pos, w, kind = mk["pos"], mk["w"], mk["kind"]
        if pos + w > n:
            continue      # a mark of something this encoding elides (e.g. the key/value types of an empty compact map)
        remaining = n - (pos + w)
        if proto == "compact" and kind in ("len", "count", "id"):
            for v in (0, 1, max(0, remaining - 1), remaining + 1, 2**31 - 1, 2**32 - 1):
                m = enc[:pos] + varint(v) + enc[pos + w:]
                yield ("overwrite-" + kind, [pos, v], m)
            # an over-long varint (all continuation bits)
            yield ("overwrite-" + kind, [pos, "unterminated"], enc[:pos] + [0xff] * 11 + enc[pos + w:])
        elif kind in ("len", "count", "id") or w > 1:
            for v, bs in boundary_values(w, remaining, le=(proto == "binle")):
                yield ("overwrite-" + kind, [pos, v], enc[:pos] + bs + enc[pos + w:])
        else:
            for v in (0, 1, 5, 12, 13, 15, 16, 17, 0x7f, 0xff):
                m = list(enc)
                m[pos] = v
                yield ("overwrite-type", [pos, v], m)


def pb_len_marks(b, base=0, depth=0):
    """Length prefixes of a VALID protobuf encoding: [{pos, w, kind:'len', payload: (start, length)}] (mechanical walk of the
    records; payloads that parse as records are descended)."""
    marks, i, n = [], 0, len(b)
    try:
        while i < n:
            k, j, sh = 0, i, 0
            while True:
                x = b[j]; j += 1
                k |= (x & 0x7f) << sh; sh += 7
                if x < 0x80:
                    break
            wt = k & 7
            if wt == 0:
                while b[j] >= 0x80:
                    j += 1
                j += 1
            elif wt == 1:
                j += 8
            elif wt == 5:
                j += 4
            elif wt == 2:
                l, s0, sh = 0, j, 0
                while True:
                    x = b[j]; j += 1
                    l |= (x & 0x7f) << sh; sh += 7
                    if x < 0x80:
                        break
                marks.append({"pos": base + s0, "w": j - s0, "kind": "len", "payload": (base + j, l)})
                if depth < 4 and l >= 2:
                    sub = pb_len_marks(b[j:j + l], base + j, depth + 1)
                    if sub is not None:
                        marks += sub
                j += l
            elif wt in (3, 4):
                pass      # group delimiters carry no payload of their own
            else:
                return None
            if j > n:
                return None
            i = j
    except IndexError:
        return None
    return marks


def pb_payload_faults(enc):
    """Fault action CorruptPayload: the first / last byte of every non-empty length-delimited payload set to 0xFF, and the
    whole payload set to 0xC0 0x80.. (an over-long UTF-8 form): what makes a `string` field fail AFTER its bytes were copied."""
    for mk in pb_len_marks(enc) or []:
        st, l = mk["payload"]
        if l == 0:
            continue
        for name, idx in (("first", st), ("last", st + l - 1)):
            m = list(enc)
            m[idx] = 0xff
            yield ("corrupt-payload", [st, l, name], m)
        m = list(enc)
        for q in range(st, st + l):
            m[q] = 0xc0 if (q - st) % 2 == 0 else 0x80
        yield ("corrupt-payload", [st, l, "overlong-utf8"], m)


def pb_key_faults(enc):
    """Fault action BadKey / BadVarint on a valid protobuf encoding: a record with field number 0, keys with the reserved wire
    types 6 and 7, a ten-byte varint whose last byte exceeds 1 (does not fit 64 bits) and an unterminated one, each in front of
    the message and in place of every length prefix."""
    over = [0xff] * 9 + [0x7f]
    unterminated = [0xff] * 11
    for name, pre in (("field-number-0", [0x00, 0x01]), ("wire-type-6", [0x0e, 0x01]), ("wire-type-7", [0x0f]),
                      ("varint-over-64-bits-key", over + [0x00]), ("unterminated-varint-key", unterminated)):
        yield ("bad-key", [0, name], pre + list(enc))
        yield ("bad-key", [len(enc), name], list(enc) + pre)
    for mk in pb_len_marks(enc) or []:
        yield ("bad-varint", [mk["pos"], "over-64-bits"], enc[:mk["pos"]] + over + enc[mk["pos"] + mk["w"]:])
        yield ("bad-varint", [mk["pos"], "unterminated"], enc[:mk["pos"]] + unterminated + enc[mk["pos"] + mk["w"]:])
