"""C12 -- asynchronous decoding equals in-memory decoding for every delivery schedule (runtime part)."""
import os
import common as c
import thrift_rt as rt
import gencheck


def run(rep, tier, seed, replay):
    c.build_harness()
    mc = rt.cached_model_check("thrift-async", "MCThriftAsync", "MCThriftAsync.cfg", tier)
    ind = rt.async_inductive(tier)
    cases, cst = c.cached_tlc_file("async-" + tier, "MCAsync", [tier], {"VERIF_TIER": tier}, timeout=1800)
    out = os.path.join(c.OUT, f"async_result-{os.getpid()}.ndjson")
    trace = os.path.join(c.OUT, f"async_trace-{os.getpid()}.ndjson")
    rc, o, dt = c.run([c.hbin("drive"), "async", cases, out, trace, str(seed)] + (["thorough"] if tier == "thorough" else []), timeout=3600, driver="drive async")
    if rc != 0:
        c.driver_failed("drive async", rc, o)
    rows = c.read_ndjson(out)
    os.remove(out)
    summary = [r for r in rows if r["kind"] == "summary"][0]
    for m in rows:
        if m["kind"] == "mismatch":
            rep.violation({"check": m["check"], "proto": m["proto"], "schedule": m["buf"] if not m["buf"].startswith(("cut", "random")) else m["buf"][:3]}, m)
    # the value-tree universe (payloads on both sides of the 4 096-byte eager-read limit, containers around 15 / 127 elements,
    # deep nesting) read from a stream -- whole and byte-wise with a Pending before every byte -- against the in-memory decode
    vsum, vmism, vst = rt.drive_vectors(tier, "universe")
    for m in vmism:
        if m["check"] in ("adec-err", "adec-value", "adec-taken", "adec-crash"):
            rep.violation(dict(rt.cls_of(m), schedule=str(m.get("buf", "-")).split("/")[-1]), m)
    events, runs, rejections, crashed = rt.validate_trace(trace, module="AsyncTrace")
    with open(trace) as f:
        sample = [f.readline().strip()[:300] for _ in range(6)]
    os.remove(trace)
    for r in rejections:
        rep.violation({"check": "poll-trace-rejected", "op": r["event"].get("op"), "cap": r["event"].get("cap")}, r)
    rep.cov = {
        "states": mc["distinct"], "transitions": mc["generated"],
        "traces_validated_against_impl": runs,
        "samples": sample,
        "evaluations": summary["evaluations"] + events,
        "distinct_nontrivial": summary["schedules"] + summary["eof_runs"],
        "rule": "one case = (message, protocol, delivery schedule): whole, byte-wise, byte-wise with a Pending before every byte, "
                "seeded random chunk sizes with Pendings, every way of cutting a message of <= 10 (quick) / 13 (thorough) bytes into "
                "chunks, and end-of-stream at every offset; each compared with the in-memory decode of the same bytes",
        "model": mc, "inductive_invariant": ind, "universe_vectors_async": {"vectors": vsum["vectors"], "evaluations": vsum["evaluations"]}, "drive": summary, "poll_events_validated": events,
        "exhaustive": False,
    }
    rep.assumptions = ["request sequences of the async protocols are modelled in spec/AsyncReads.tla and bound to the code by "
                       "validating every logged poll (capacity offered, bytes taken) against ThriftAsync",
                       "generated decode_async joins via the generated-code corpus (C02)"]
    eof = gencheck.async_eof(rep, tier, seed)
    # every protocol call of emitted decode_async under seeded schedules, validated against the protocol model
    eof.update(gencheck.decode_traces(rep, "C12", tier, seed))
    rep.cov.update(gencheck.add_tagged(rep, "C12", tier, seed))
    rep.cov.update(eof)
    return "model_checking"
