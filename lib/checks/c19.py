"""C19 -- a failed decode releases everything it allocated."""
import random
import common as c
import gen, gencheck, faults


def run(rep, tier, seed, replay):
    c.build_harness()
    rnd = random.Random(seed)
    cases, res, units, cst = gencheck.results(tier, seed)
    base = [cs for cs in cases if cs["kind"] == "base" and cs["how"] == "v1" and cs["ok"]]
    rnd.shuffle(base)
    take = base[: (60 if tier == "quick" else 500)]
    reqs, meta = [], []
    # which definitions contain (transitively) a list: the only emitted decoder that builds its value through a raw pointer
    ss = gencheck.corpus_for(tier, seed)
    haslist = {}
    for sch in ss:
        direct, refs = {}, {}
        for d in sch["defs"]:
            hl, rf = [False], set()

            def walk(t, hl=hl, rf=rf):
                if isinstance(t, dict):
                    if "list" in t:
                        hl[0] = True
                        walk(t["list"])
                    if "set" in t:
                        walk(t["set"])
                    if "map" in t:
                        walk(t["map"][0]); walk(t["map"][1])
                    if "ref" in t:
                        rf.add(t["ref"])
            for f in d.get("fields", []):
                walk(f["ty"])
            if d["d"] == "typedef":
                walk(d["ty"])
            direct[d["name"]], refs[d["name"]] = hl[0], rf
        changed = True
        while changed:
            changed = False
            for n in direct:
                if not direct[n] and any(direct.get(r) for r in refs[n]):
                    direct[n] = True
                    changed = True
        haslist[sch["name"]] = direct
    for cs in take:
        path = gen.find_type(units, cs["sid"], cs["ty"])
        if path is None:
            continue
        for proto, key, mk in (("bin", "bin", "mbin"), ("compact", "cs", "mc")):
            enc = cs[key]
            if len(enc) > 600:
                continue
            fl = [f for f in faults.faults(enc, cs[mk], proto, rnd, 8 if tier == "quick" else 48)]
            trunc = [f for f in fl if f[0] == "truncate"]
            other = [f for f in fl if f[0] != "truncate"]
            if tier == "quick" and len(trunc) > 30:
                trunc = rnd.sample(trunc, 30)
            for kind, detail, data in trunc + other:
                for mode in ("sync", "async"):
                    rid = len(reqs)
                    r = {"id": rid, "ty": path, "proto": proto, "mode": mode, "op": "decode", "input": data, "measure_leak": True,
                         "alloc_limit": (1 << 20) + 1024 * len(data)}
                    if mode == "async":
                        r["sched"] = "whole"
                    reqs.append(r)
                    meta.append({"schema": cs["sid"], "idl_type": cs["ty"], "proto": proto, "mode": mode, "fault": kind, "detail": detail,
                                 "def": "union" if cs["isunion"] else "struct", "has_list": bool(haslist[cs["sid"]].get(cs["ty"]))})
    # protobuf messages (generated + the runtime-only kinds): truncations, bit flips and corrupted payloads of canonical encodings
    import pbcheck
    pfinds, pcov, pcases, pss, punits, sp = pbcheck.analyse(tier, seed)
    pcanon = [cs for cs in pcases if cs["kind"] == "canon" and cs["how"] == "v1" and len(cs["in"]) <= 500]
    for cs in pcanon:
        path = gen.find_type(punits, cs["sid"], cs["ty"])
        fl = list(faults.faults(cs["in"], [], "pb", rnd, 12 if tier == "quick" else 64))
        trunc = [f for f in fl if f[0] == "truncate"]
        if tier == "quick" and len(trunc) > 40:
            trunc = rnd.sample(trunc, 40)
        for kind, detail, data in trunc + [f for f in fl if f[0] != "truncate"] + list(faults.pb_payload_faults(cs["in"])):
            reqs.append({"id": len(reqs), "ty": path, "op": "decode", "input": data, "measure_leak": True, "alloc_limit": (1 << 20) + 1024 * len(data)})
            meta.append({"schema": cs["sid"], "idl_type": cs["ty"], "proto": "protobuf", "mode": "sync", "fault": kind, "detail": detail,
                         "def": "message", "has_list": False})
    out = gen.run_worker(reqs, tag="c19")
    failed = leaks = 0
    for i, m in enumerate(meta):
        r = out.get(i)
        if r is None or r.get("tool_error"):
            raise c.ToolError("worker: " + str(r))
        if r.get("crash") or r.get("panic"):
            continue   # C09's statement
        if r.get("ok"):
            continue   # the fault did not make decoding fail: nothing to say
        failed += 1
        d = (r.get("alloc") or {}).get("leak_deltas", [])
        # warm-up run first; a leak is a positive delta on BOTH later repetitions
        if len(d) == 3 and d[1] > 0 and d[2] > 0:
            leaks += 1
            rep.violation({"check": "leak", "site": "generated" if m["proto"] != "protobuf" else "generated-protobuf", "proto": m["proto"], "mode": m["mode"], "def": m["def"], "has_list": m["has_list"]},
                          {"schema": m["schema"], "type": m["idl_type"], "proto": m["proto"], "mode": m["mode"], "fault": [m["fault"], m["detail"]],
                           "input": reqs[i]["input"], "live_byte_deltas_after_warmup": d[1:]})
    rep.cov = {
        "evaluations": len(reqs) * 3, "distinct_nontrivial": failed,
        "rule": "one case = (generated type, protocol, sync/async, fault) where the fault makes decoding fail; the worker's counting "
                "allocator compares live bytes before the call and after dropping the result, three times (first = warm-up); a leak is "
                "a positive difference on both later repetitions",
        "samples": [{"meta": meta[len(meta) // 2], "input": reqs[len(meta) // 2]["input"][:40]}],
        "failed_decodes_measured": failed, "leaking": leaks, "generated_types_faulted": len(take), "exhaustive": False,
    }
    rep.assumptions = ["the measured window contains only the decode call and the drop of its result (the harness allocates nothing inside it)",
                       "Thrift (binary, compact; sync, async) and protobuf generated types"]
    return "fault_enumeration"
