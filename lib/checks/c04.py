"""C04 -- reported Thrift size equals the number of bytes encoding writes (runtime part;
generated types are covered once the generated-code corpus exists, see C02)."""
import os
import common as c
import thrift_rt as rt
import gencheck


def run(rep, tier, seed, replay):
    c.build_harness()
    wsum, wmism, wmeta, pst, wsample = rt.drive_walks(tier, seed)
    vsum, vmism, vst = rt.drive_vectors(tier)
    isum, imism, _ = rt.drive_vectors(tier, "ints")
    esum, emism, _, _ = rt.drive_wire(tier)
    nvals = 300 if tier == "quick" else 20000
    tp = rt.record(seed + 4, nvals)
    events, runs, rejections, crashed = rt.validate_trace(tp)
    os.remove(tp)
    for m in wmism + vmism + imism:
        if m["check"] in rt.LEN_CHECKS:
            rep.violation(rt.cls_of(m), m)
    for m in emism:
        if m["check"] in ("env-len", "appexc-size"):
            rep.violation({"check": m["check"], "proto": m["proto"], "kind": "-"}, m)
    for r in rejections:
        op = r["event"].get("op", "")
        if op.startswith("l_"):
            rep.violation({"check": "trace-rejected", "proto": r["run_head"].get("p"), "op": op}, r)
    ids = rt.compact_ids_inductive()
    rep.cov = {
        "compact_field_id_channel_inductive": ids,
        "states": pst["distinct"], "transitions": pst["generated"],
        "traces_validated_against_impl": runs + wsum["walks"],
        "samples": [{"walk": {"id": wsample["id"], "steps": wsample["steps"][:4]}}],
        "evaluations": wsum["evaluations"] + vsum["evaluations"] + isum["evaluations"] + events,
        "distinct_nontrivial": wmeta["transitions"] + vsum["vectors"] + isum["vectors"],
        "rule": "every transition of the lock-step model carries the length pass next to the writer (LenSync: l = w after every "
                "step, lengths returned = bytes written); each is replayed on a real length-pass object; vectors run the length "
                "pass and the write pass on the SAME object for every protocol x buffer kind",
        "model": pst, "transition_tour": wmeta, "vectors": vsum, "ints": isum, "envelopes": esum,
        "trace": {"events_validated": events, "runs_validated": runs, "rejections": len(rejections)},
        "exhaustive": False,
    }
    rep.assumptions = ["size of generated types is checked by C02's machinery"]
    tr = gencheck.encode_traces(rep, "C04", tier, seed)
    rep.cov.update(gencheck.add_tagged(rep, "C04", tier, seed))
    rep.cov.update(tr)
    return "model_checking"
