"""C15 -- the Thrift IDL parser inverts printing, independent of layout.

TLC (spec/MCIdl.tla over spec/ThriftIdl.tla) enumerates documents of G_thrift, prints each as a
token sequence under a set of layouts (default, tight, every choice point varied one at a time,
seeded random) and states the expected descriptor Exp(doc).  `drive idl` concatenates the pieces,
calls `File::parse`, demands that nothing is left, converts the parsed `File` to the same explicit
JSON form and compares; the Debug rendering of (package, items) must be identical for every layout
of one document.

Second pass: a tight / random layout that fails is re-rendered with those choice points put back to
the default that are already known to fail on their own (learned from the one-at-a-time layouts of
this very run, by token roles), so that the rest of the layout is still exercised; a failure of the
repaired layout, or of a layout that contains no such choice point, is an interaction and reported."""
import collections, json, os
import common as c
import idl

BASIC = ("space", "newline", "line-comment", "hash-comment", "block-comment")


def text_of(lay):
    return "".join(lay["p"])


def replay_of(doc, lay, m):
    det = dict(m["detail"])
    if "got" in det and len(json.dumps(det["got"])) > 4000:
        det["got"] = "(large)"
    return {"document": doc["name"], "layout": {k: lay[k] for k in ("l", "vary", "at", "c")}, "text": text_of(lay),
            "pieces": lay["p"], "expected": doc["exp"], "observed": {"check": m["check"], "detail": det}}


def run_replay(rep, path):
    r = json.load(open(path))["replay"]
    p = os.path.join(c.OUT, f"idl-replay-{os.getpid()}.ndjson")
    c.write_ndjson(p, [{"doc": 1, "exp": r["expected"], "layouts": [{"l": 0, "p": r["pieces"]}]}])
    summary, mism, _ = idl.drive_idl(p, "replay")
    os.remove(p)
    for m in mism:
        c.log("replay:", json.dumps(m)[:2000])
        rep.violation({"check": m["check"], "replay": True}, dict(r, observed_now=m))
    rep.cov = {"evaluations": summary["evaluations"], "distinct_nontrivial": 1, "rule": "replay of one recorded (document, layout)",
               "samples": [r["text"][:200]]}
    return "exploration"


def run(rep, tier, seed, replay):
    c.build_harness()
    if replay:
        return run_replay(rep, replay)
    path, st = idl.cases(tier, seed)
    docs = idl.load_cases(path)
    summary, mism, dt = idl.drive_idl(path, tier)
    by = collections.defaultdict(list)
    for m in mism:
        by[(m["doc"], m["l"])].append(m)

    classes = collections.Counter()
    bad_keys = {}            # deviation key -> classification it was seen failing with
    base_failing = set()
    skipped_layouts = 0
    n_by_vary = collections.Counter()
    choice_points = 0

    def report(cls, doc, lay, m):
        classes[json.dumps(cls, sort_keys=True)] += 1
        rep.violation(cls, replay_of(doc, lay, m))

    # ---- pass 1: default layouts and one-at-a-time variations
    for d, doc in docs.items():
        lays = doc["layouts"]
        for lay in lays:
            n_by_vary[lay["vary"]] += 1
        base = lays[0]
        assert base["vary"] == "default"
        if (d, 0) in by:
            m = by[(d, 0)][0]
            cls = idl.outcome_class(doc, base, m)
            cls["vary"] = "default"
            report(cls, doc, base, m)
            base_failing.add(d)
            skipped_layouts += len(lays) - 1
            continue
        for lay in lays[1:]:
            if lay["vary"] not in ("gap", "sep", "quote"):
                continue
            choice_points += 1
            ms = by.get((d, lay["l"]))
            if not ms:
                continue
            m = ms[0]
            cls = {"check": m["check"]}
            cls.update(idl.variation(doc, lay))
            oc = idl.outcome_class(doc, lay, m)
            for k in ("kind", "kw", "site"):
                if k in oc:
                    cls[k] = oc[k]
            report(cls, doc, lay, m)
            for _, key in idl.deviations(doc, base["p"], lay["p"]):
                bad_keys.setdefault(key, cls)
    # a blank that fails in each of the five basic kinds fails as a mixture of them, too
    pairs = collections.defaultdict(set)
    for key in bad_keys:
        if key[0] == "gap":
            pairs[(key[1], key[2])].add(key[3])
    for (l, r), kinds in pairs.items():
        if all(k in kinds for k in BASIC):
            bad_keys.setdefault(("gap", l, r, "mixed"), bad_keys[("gap", l, r, "space")])

    # ---- pass 2: tight and random layouts
    explained = collections.Counter()
    second = []              # (doc id, original layout, repaired pieces)
    multi_total = multi_failed = 0
    for d, doc in docs.items():
        if d in base_failing:
            continue
        base = doc["layouts"][0]
        for lay in doc["layouts"][1:]:
            if lay["vary"] in ("gap", "sep", "quote"):
                continue
            multi_total += 1
            ms = by.get((d, lay["l"]))
            if not ms:
                continue
            multi_failed += 1
            devs = idl.deviations(doc, base["p"], lay["p"])
            bad = [(slot, key) for slot, key in devs if key in bad_keys]
            if not bad:
                m = ms[0]
                cls = idl.outcome_class(doc, lay, m)
                cls.update({"vary": lay["vary"], "interaction": "no choice point of this layout fails on its own"})
                report(cls, doc, lay, m)
                continue
            for _, key in bad:
                explained[" ".join(key)] += 1
            p2 = list(lay["p"])
            for slot, _ in bad:
                p2[slot] = base["p"][slot]
            second.append((d, lay, p2))
    repaired_ok = 0
    s2 = {"evaluations": 0, "layouts": 0}
    if second:
        p = os.path.join(c.OUT, f"idl-pass2-{os.getpid()}.ndjson")
        grouped = collections.defaultdict(list)
        for d, lay, p2 in second:
            grouped[d].append((lay, p2))
        rows = []
        for d, items in grouped.items():
            doc = docs[d]
            ls = [{"l": 0, "p": doc["layouts"][0]["p"]}] + [{"l": lay["l"], "p": p2} for lay, p2 in items]
            rows.append({"doc": d, "exp": doc["exp"], "layouts": ls})
        c.write_ndjson(p, rows)
        s2, mism2, _ = idl.drive_idl(p, tier + "-pass2")
        os.remove(p)
        by2 = collections.defaultdict(list)
        for m in mism2:
            by2[(m["doc"], m["l"])].append(m)
        for d, lay, p2 in second:
            ms = by2.get((d, lay["l"]))
            if not ms:
                repaired_ok += 1
                continue
            doc = docs[d]
            lay2 = dict(lay, p=p2)
            cls = idl.outcome_class(doc, lay2, ms[0])
            cls.update({"vary": lay["vary"], "interaction": "fails with every known-failing choice point put back to the default"})
            report(cls, doc, lay2, ms[0])

    sample_doc = [d for d in docs.values() if d["name"] == "mixed"][0]
    samples = [{"document": sample_doc["name"], "layout": "default", "text": text_of(sample_doc["layouts"][0]),
                "expected_first_items": sample_doc["exp"]["items"][:3]},
               {"document": sample_doc["name"], "layout": "random", "text": text_of(sample_doc["layouts"][-1])}]
    full = [d for d in docs.values() if d["mode"] == "full"]
    rep.cov = {
        "evaluations": summary["evaluations"] + s2["evaluations"],
        "distinct_nontrivial": summary["layouts"] + max(0, s2["layouts"] - len(set(d for d, _, _ in second))),
        "rule": "one case = one (document, layout) text enumerated by TLC (or its second-pass repair), parsed by File::parse and "
                "compared with Exp(doc) of spec/ThriftIdl.tla and with the Debug rendering of the document's default layout; "
                "texts are distinct by construction (different documents, or the same token sequence with a different choice "
                "vector) and non-trivial (each carries a descriptor to compare)",
        "samples": samples,
        "documents": len(docs), "documents_full_layout": len(full), "documents_light_layout": len(docs) - len(full),
        "tokens_in_full_documents": sum(len(d["toks"]) for d in full),
        "layouts_by_kind": dict(n_by_vary), "single_choice_points_varied": choice_points,
        "parsed_equal_first_pass": summary["parsed_equal"], "bytes_parsed": summary["bytes"],
        "documents_failing_in_default_layout": len(base_failing), "layouts_not_judged_because_default_fails": skipped_layouts,
        "tight_pair_and_random_layouts": multi_total, "of_these_failed_first_pass": multi_failed,
        "repaired_and_passed_second_pass": repaired_ok,
        "explained_by_choice_point": dict(explained.most_common(12)),
        "finding_classes": {k: v for k, v in classes.most_common(60)},
        "tlc": st, "drive_s": round(dt, 2), "exhaustive": False,
    }
    rep.assumptions = [
        "the printer treats the namespace scope `*`, dotted paths (a.b.c) and signed numbers as single word-like tokens, as the Apache "
        "lexer does; blanks inside a dotted path are not generated",
        "a tight or random layout that contains a choice point which fails on its own is judged on its repaired form (that choice "
        "point put back to the default); documents whose default layout already fails are reported once and their other layouts "
        "are not judged",
        "expected descriptors encode two as-built rules (function arguments without requiredness are `required`; numbers keep the "
        "64-bit value / the source text of doubles)",
        "literals and comments are ASCII; escapes are the four the parser documents (\\\\ \\\" \\' \\n) plus the probe \\t",
    ]
    return "exploration"
