"""C07 -- skipping a Thrift value consumes exactly that value."""
import common as c
import thrift_rt as rt


def run(rep, tier, seed, replay):
    c.build_harness()
    stats = {}
    evals = vecs = 0
    mine = rt.SKIP_CHECKS | {"skip-depth", "askip", "askip-err", "askip-depth"}
    for vset in ("universe", "deep"):
        vsum, vmism, vst = rt.drive_vectors(tier, vset)
        stats[vset] = vsum
        evals += vsum["evaluations"]
        vecs += vsum["vectors"]
        for m in vmism:
            if m["check"] in mine:
                rep.violation(rt.cls_of(m), m)
    vec, _ = rt.vectors(tier, "deep")
    sample = c.read_ndjson(vec)[0]
    sample = {"id": sample["id"], "t": sample["t"], "need": sample["need"], "bin": sample["bin"][:24]}
    rep.cov = {
        "evaluations": evals, "distinct_nontrivial": vecs,
        "rule": "one case = a TLC-evaluated value tree (every wire type incl. uuid, empty and non-empty containers, maps with "
                "fixed/variable entries and struct keys/values, nesting up to 80) with the length of its ideal encoding and the "
                "budget Need(v) of spec/ThriftSkip.tla; skip() is run on {bin, binle, compact, unchecked (after read_field_begin), "
                "async bin, async binle, async compact} with a trailer whose first byte is decoded next",
        "samples": [sample], "sets": stats, "exhaustive": False,
        "states": 0, "transitions": 0,
    }
    rep.cov.pop("states"); rep.cov.pop("transitions")
    rep.assumptions = ["documented limit = MAXIMUM_SKIP_DEPTH (64) levels including the value itself; the iterative skipper of the "
                       "unchecked codec keeps its pending containers on the heap: beyond the limit a correct skip or DepthLimit is accepted"]
    return "exploration"
