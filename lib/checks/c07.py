"""C07 -- skipping a Thrift value consumes exactly that value."""
import common as c
import thrift_rt as rt


def run(rep, tier, seed, replay):
    c.build_harness()
    stats = {}
    evals = vecs = 0
    mine = rt.SKIP_CHECKS | {"skip-depth", "askip", "askip-err", "askip-depth", "adec-crash"}
    for vset in ("universe", "deep"):
        vsum, vmism, vst = rt.drive_vectors(tier, vset)
        stats[vset] = vsum
        evals += vsum["evaluations"]
        vecs += vsum["vectors"]
        for m in vmism:
            if m["check"] in mine:
                rep.violation(rt.cls_of(m), m)
    # the iterative skipper as a transition system: exhaustive model check + every loop iteration of the real code validated
    sk = rt.skip_trace_check(rep, tier, seed)
    vec, _ = rt.vectors(tier, "deep")
    sample = c.read_ndjson(vec)[0]
    sample = {"id": sample["id"], "t": sample["t"], "need": sample["need"], "bin": sample["bin"][:24]}
    rep.cov = {
        "evaluations": evals, "distinct_nontrivial": vecs,
        "rule": "one case = a TLC-evaluated value tree (every wire type incl. uuid, empty and non-empty containers, maps with "
                "fixed/variable entries and struct keys/values, nesting up to 80) with the length of its ideal encoding and the "
                "budget Need(v) of spec/ThriftSkip.tla; skip() is run on {bin, binle, compact, unchecked (after read_field_begin), "
                "async bin, async binle, async compact} with a trailer whose first byte is decoded next",
        "samples": [sample], "sets": stats, "exhaustive": False,
        "states": sk["model"]["distinct"], "transitions": sk["model"]["generated"],
        "traces_validated_against_impl": sk["runs_validated"],
        "iterative_skipper": {"model": sk["model"], "loop_iterations_validated": sk["events_validated"], "runs_validated": sk["runs_validated"],
                              "rejections": sk["rejections"],
                              "note": "spec/IterSkip.tla: one action per iteration of skip_till_depth's loop; MCIterSkip checks ExactOnDone / "
                                      "NeverBehind / LenIsIndex / Terminates on the encodings of the whole universe and nesting up to 80; "
                                      "IterSkipTrace validates the hook events (type, cursor, accounted length, pending stack) of the TLC "
                                      "vectors and of seeded random trees"},
    }
    rep.assumptions = ["documented limit = MAXIMUM_SKIP_DEPTH (64) levels including the value itself; the iterative skipper of the "
                       "unchecked codec keeps its pending containers on the heap: beyond the limit a correct skip or DepthLimit is accepted"]
    return "model_checking"
