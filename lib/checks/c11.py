"""C11 -- the unchecked binary codec equals the checked one within its contract (runtime part)."""
import os
import common as c
import thrift_rt as rt
import gencheck


def run(rep, tier, seed, replay):
    c.build_harness()
    evals = vecs = 0
    stats = {}
    for vset in ("universe", "ints", "deep"):
        vsum, vmism, vst = rt.drive_vectors(tier, vset)
        stats[vset] = vsum
        evals += vsum["evaluations"]
        vecs += vsum["vectors"]
        for m in vmism:
            if m["proto"] == "unsafe" or m["check"] in rt.GUARD_CHECKS:
                rep.violation(rt.cls_of(m), m)
    nvals = 400 if tier == "quick" else 20000
    tp = rt.record(seed + 11, nvals)
    events, runs, rejections, crashed = rt.validate_trace(tp)
    os.remove(tp)
    for r in rejections:
        if r["run_head"].get("p") == "unsafe":
            rep.violation({"check": "trace-rejected", "proto": "unsafe", "op": r["event"].get("op", "")}, r)
    # message envelopes and type bytes through the unchecked reader / writer (TLC wire cases of spec/MCWire.tla)
    wsum, wmism, _, _ = rt.drive_wire(tier)
    for m in wmism:
        if m.get("proto") == "unsafe":
            rep.violation({"check": m["check"], "proto": "unsafe", "kind": "wire"}, m)
    stats["wire"] = wsum
    sk = rt.skip_trace_check(rep, tier, seed + 100, vsets=("universe",))
    import json
    for r in crashed:
        h = json.loads(r[0])
        if h.get("p") == "unsafe":
            rep.violation({"check": "record-crash", "proto": "unsafe", "err": h.get("err")[:80]}, {"run": r[:50]})
    rep.cov = {
        "evaluations": evals + events, "distinct_nontrivial": vecs,
        "states": events + 1, "transitions": events,
        "traces_validated_against_impl": runs,
        "samples": [{"note": "every vector is written by the unchecked writer into an exact-size buffer followed by 64 guard bytes "
                             "(BytesMut, LinkedBytes, LinkedBytes zero-copy) and compared byte for byte with the reference binary "
                             "encoding; the unchecked reader must return the same tree as the reference decoder and account "
                             "advanced+index = bytes consumed"}],
        "rule": "vectors as in C01 restricted to the unchecked codec; trace validation binds verif_cursor() (index, buffer length, "
                "remaining input) after every call to spec/UnsafeProto.tla (InBounds: index + n <= buflen before every store/load)",
        "sets": stats, "trace": {"events_validated": events, "runs_validated": runs, "rejections": len(rejections)},
        "iterative_skipper_trace": {k: v for k, v in sk.items()},
        "exhaustive": False,
    }
    rep.assumptions = ["memory safety as such is not decided (DESIGN.md 7): an out-of-bounds access that does not show in the cursor, "
                       "the guard bytes or the decoded value is not detected",
                       "preconditions as documented: buffer >= size computed with TBinaryProtocol<()>, input a complete well-formed encoding"]
    # emitted size / encode / decode driven through the unchecked codec, every call validated against the cursor model
    tr = gencheck.encode_traces(rep, "C11", tier, seed)
    tr.update(gencheck.decode_traces(rep, "C11", tier, seed))
    rep.cov.update(gencheck.add_tagged(rep, "C11", tier, seed))
    rep.cov.update(tr)
    return "model_checking"
