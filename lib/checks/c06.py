"""C06 -- protobuf wire format conforms to the encoding specification (interop)."""
import pbcheck


def run(rep, tier, seed, replay):
    rep.assumptions = ["schema semantics: spec/PbSchema.tla over spec/PbWire.tla, written from the protobuf encoding specification; "
                       "self-consistency (Dec(Enc(x)) = x for every alternative) asserted by TLC on every emitted value",
                       "generated messages only (hash maps, no groups: proto2 groups are an explicit todo!() of the lowering); the "
                       "runtime-only kinds (group codec, btree maps, packed encode, wrapper types) are not reached by this corpus",
                       "both configurations of pilota are executed: default features, and pb-encode-default-value (a second worker build, target/pbdefault)"]
    return pbcheck.run_property(rep, "C06", tier, seed, "exploration")
