"""C13 -- retained unknown fields survive re-encoding unchanged."""
import gencheck


def run(rep, tier, seed, replay):
    rep.assumptions = ["schema semantics: spec/ThriftSchema.tla (tolerant reader, defaults, retention); wire decoding of outputs by the "
                       "reference decoders; corpus = lib/schemas.py covering selection over the type-shape pool of DESIGN.md appendix B",
                       "shapes recorded in known_findings.json are quarantined in the corpus classification"]
    __import__("common").build_harness()
    tr = gencheck.decode_traces(rep, "C13", tier, seed)
    return gencheck.run_property(rep, "C13", tier, seed, "model_checking", extra_cov=tr)
