"""C13 -- retained unknown fields survive re-encoding unchanged."""
import gencheck


def run(rep, tier, seed, replay):
    rep.assumptions = ["schema semantics: spec/ThriftSchema.tla (tolerant reader, defaults, retention); wire decoding of outputs by the "
                       "reference decoders; corpus = lib/schemas.py covering selection over the type-shape pool of DESIGN.md appendix B",
                       "shapes recorded in known_findings.json are quarantined in the corpus classification"]
    return gencheck.run_property(rep, "C13", tier, seed, "model_checking")
