"""C02 -- generated Thrift types round trip under every protocol."""
import gencheck


def split_partition(rep, tier, seed):
    """Builder option `split`: the split output holds, file by file, exactly the items of the single-file output
    (SplitIsPartition / SplitNamesDistinct of spec/CodegenPipeline.tla observed on the builder), with and without
    keep_unknown_fields -- what the checks establish on the single-file code therefore holds for the split code."""
    import glob, os
    from concurrent.futures import ThreadPoolExecutor
    import common as c, splitcheck
    gencheck.prepare(tier, seed)          # renders the corpus IDL
    d = os.path.join(c.OUT, "corpus", f"thrift-{tier}-{seed}")
    idls = sorted(glob.glob(os.path.join(d, "*.thrift"))) + sorted(glob.glob(os.path.join(c.REPO, "pilota-build/test_data/thrift/*.thrift")))
    jobs = [(f, keep) for f in idls for keep in (False, True)]
    with ThreadPoolExecutor(max_workers=6) as ex:
        res = list(ex.map(lambda j: splitcheck.check("thrift", j[0], include=os.path.dirname(j[0]), keep=j[1]), jobs))
    nfiles = 0
    for (f, keep), (probs, n) in zip(jobs, res):
        nfiles += n
        for cls, replay in probs:
            rep.violation(dict(cls, unit="keep" if keep else "plain"), replay)
    return {"split_mode_partition": {"documents": len(idls), "builder_runs": 2 * len(jobs), "item_files_matched": nfiles,
                                     "model": "spec/CodegenPipeline.tla SplitIsPartition, SplitNamesDistinct"}}


def run(rep, tier, seed, replay):
    rep.assumptions = ["schema semantics: spec/ThriftSchema.tla (tolerant reader, defaults, retention); wire decoding of outputs by the "
                       "reference decoders; corpus = lib/schemas.py covering selection over the type-shape pool of DESIGN.md appendix B",
                       "shapes recorded in known_findings.json are quarantined in the corpus classification"]
    c_build = __import__("common").build_harness()
    tr = gencheck.encode_traces(rep, "C02", tier, seed)
    tr.update(gencheck.decode_traces(rep, "C02", tier, seed))
    tr.update(split_partition(rep, tier, seed))
    return gencheck.run_property(rep, "C02", tier, seed, "model_checking", extra_cov=tr)
