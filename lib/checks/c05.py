"""C05 -- protobuf encode/decode round trip and encoded_len agreement."""
import pbcheck


def run(rep, tier, seed, replay):
    rep.assumptions = ["schema semantics: spec/PbSchema.tla over spec/PbWire.tla, written from the protobuf encoding specification; "
                       "self-consistency (Dec(Enc(x)) = x for every alternative) asserted by TLC on every emitted value",
                       "generated messages only (hash maps, no groups: proto2 groups are an explicit todo!() of the lowering); the "
                       "runtime-only kinds (group codec, btree maps, packed encode, wrapper types) are not reached by this corpus",
                       "feature pb-encode-default-value off (the default build)"]
    return pbcheck.run_property(rep, "C05", tier, seed, "model_checking")
