"""C14 -- every IDL in the supported grammar generates Rust that compiles."""
import boxing
import autoderive
import glob, itertools, os, re, shutil
import common as c
import gen, gencheck, pbcheck, schemas, pbschemas, c14docs
import thrift_rt as rt

CRATE = os.path.join(c.HARNESS, "c14crate")
GEN = os.path.join(CRATE, "src", "gen")


def all_configs():
    out = []
    for split, keep, cc, iu in itertools.product((False, True), repeat=4):
        out.append({"split": split, "keep": keep, "change_case": not cc, "ignore_unused": iu})
    return out


def cfg_name(cf):
    return "+".join(k for k in ("split", "keep", "ignore_unused") if cf[k]) + ("" if cf["change_case"] else "+no_change_case") or "default"


def documents(tier, seed):
    docs = []
    for s in gencheck.corpus_for(tier, seed):
        if s.get("no_keep"):
            continue      # holds a quarantined shape (struct literals): that shape has its own single-shape document below
        docs.append(c14docs.doc("corpus_" + s["name"], schemas.render(s), shape="schema-corpus"))
    for s in pbcheck.corpus_for(tier, seed):
        docs.append(c14docs.doc("pbcorpus_" + s["name"], pbschemas.render(s), kind="proto", shape="proto-corpus"))
    docs += c14docs.thrift_docs() + c14docs.proto_docs()
    # recursive type graphs: representatives of every signature explored by spec/MCBoxing.tla, with the outcome the as-built
    # boxing model (spec/Boxing.tla) predicts; a predicted failure is the recorded finding C14-union-member-not-boxed
    reps, bst = boxing.select(tier, seed)
    for g, ok, i in reps:
        d = c14docs.doc(f"box_{i}", boxing.render(g), shape="recursive-graph" if ok else "by-value-cycle-through-unions-only")
        d["predicted_ok"] = ok
        d["only_default_config"] = True
        docs.append(d)
    documents.boxing_stats = bst
    # derive decisions: representatives of every signature explored by spec/MCAutoDerive.tla with the outcome the as-built
    # model (spec/AutoDerive.tla) predicts; a predicted failure is the recorded blind spot of the derive predicate
    areps, ast = autoderive.select(tier, seed)
    for g, ok, pre, i in areps:
        d = c14docs.doc(f"derive_{i}", autoderive.render(g), shape="derive-graph" if ok else "derive-graph-double-behind-btree")
        d["predicted_ok"] = ok
        d["only_default_config"] = True
        docs.append(d)
    documents.autoderive_stats = ast
    for g in sorted(glob.glob(os.path.join(c.REPO, "pilota-build/test_data/thrift/*.thrift"))):
        name = os.path.basename(g)[:-7]
        d = c14docs.doc("golden_" + name, open(g).read(), shape="golden:" + name)
        d["golden_dir"] = os.path.dirname(g)
        d["golden_path"] = g
        if name == "enum_test":
            d["outside_grammar"] = True       # declares enums without values
        docs.append(d)
    for g in sorted(glob.glob(os.path.join(c.REPO, "pilota-build/test_data/protobuf/*.proto"))):
        name = os.path.basename(g)[:-6]
        d = c14docs.doc("goldenpb_" + name, open(g).read(), kind="proto", shape="goldenpb:" + name)
        d["golden_dir"] = os.path.dirname(g)
        d["golden_path"] = g
        docs.append(d)
    return docs


def run(rep, tier, seed, replay):
    c.build_harness()
    docs = documents(tier, seed)
    cfgs = all_configs()
    base = os.path.join(c.OUT, "corpus", f"c14-{tier}")
    shutil.rmtree(base, ignore_errors=True)
    os.makedirs(base)
    shutil.rmtree(GEN, ignore_errors=True)
    os.makedirs(GEN)
    units = []
    n = 0
    for di, d in enumerate(docs):
        ddir = os.path.join(base, d["name"])
        os.makedirs(ddir)
        for fn, txt in d["files"].items():
            open(os.path.join(ddir, fn), "w").write(txt)
        idl = d.get("golden_path") or os.path.join(ddir, d["entry"])
        inc = d.get("golden_dir") or ddir
        if tier == "quick":
            mine = [cfgs[0], cfgs[1 + (di % (len(cfgs) - 1))]]
            if d["shape"] in ("schema-corpus", "proto-corpus"):
                mine = [cfgs[0], cfgs[8], cfgs[4]] if di % 2 == 0 else [cfgs[0], cfgs[12]]
        else:
            mine = cfgs
        if d["kind"] == "proto":
            mine = [cf for cf in mine if not cf["keep"]] or [cfgs[0]]
        if d.get("only_default_config"):
            mine = [cfgs[0]]
        for cf in mine:
            uid = f"u{n}"
            n += 1
            udir = os.path.join(GEN, uid)
            os.makedirs(udir)
            u = gen.Unit(uid, idl, kind=d["kind"], keep=cf["keep"], split=cf["split"], change_case=cf["change_case"],
                         ignore_unused=cf["ignore_unused"], include=inc)
            u.doc, u.cfg = d, cf
            gen.run_builder(u, udir, timeout=180)
            units.append(u)
    # compile everything that was emitted; drop what fails and repeat
    log = ""
    for _ in range(8):
        mods = [f'pub mod {u.uid} {{ include!(concat!(env!("CARGO_MANIFEST_DIR"), "/src/gen/{u.uid}/{u.uid}.rs")); }}' for u in units if u.ok]
        open(os.path.join(CRATE, "src", "lib.rs"), "w").write("#![allow(warnings)]\n" + "\n".join(mods) + "\n")
        rc, o, dt = c.run(["cargo", "check", "--offline", "-p", "c14crate", "--message-format", "short"], timeout=3600, cwd=c.HARNESS)
        log = o
        if rc == 0:
            break
        bad = set(re.findall(r"src/gen/(u\d+)/", o))
        if not bad:
            raise c.ToolError("c14crate does not compile and no unit could be blamed:\n" + o[-4000:])
        for u in units:
            if u.uid in bad and u.ok:
                u.ok, u.status = False, "compile-error"
                errs = [l for l in o.split("\n") if f"src/gen/{u.uid}/" in l and "error" in l]
                u.output = "\n".join(errs[:6])[-2500:]
    else:
        raise c.ToolError("c14crate still does not compile after dropping failing units")
    nfail = 0
    for u in units:
        if u.ok or u.doc.get("outside_grammar"):
            continue
        nfail += 1
        check = {"panic": "builder-panic", "exit": "builder-exit", "timeout": "builder-timeout", "compile-error": "compile-error",
                 "unparsable": "compile-error"}.get(u.status, u.status)
        first = ""
        m = re.search(r"error(\[E\d+\])?[^\n]*", u.output)
        if m:
            first = re.sub(r"u\d+", "uN", m.group(0))[:160]
        rep.violation({"check": check, "shape": u.doc["shape"], "kind": u.doc["kind"], "keep": bool(u.cfg.get("keep"))},
                      {"document": u.doc["name"], "files": u.doc["files"] if len(str(u.doc["files"])) < 4000 else list(u.doc["files"]),
                       "config": cfg_name(u.cfg), "status": u.status, "diagnostic": u.output[-1500:], "first_error": first})
    # conformance of the boxing model: a graph predicted to have an unbroken by-value cycle must indeed fail to compile
    # (if it compiles, the model misdescribes the generator: a tool error, not a property violation)
    wrong = [u.doc["name"] for u in units if u.doc.get("predicted_ok") is False and u.ok]
    if wrong:
        raise c.ToolError("spec/Boxing.tla / spec/AutoDerive.tla predict a compile error for documents that compile: " + ", ".join(wrong[:8]))
    # quarantined documents that unexpectedly pass are fine (a finding got repaired); nothing to report
    rep.cov = {
        "evaluations": len(units), "distinct_nontrivial": len(docs),
        "rule": "one case = (document, builder configuration): documents = schema corpora + feature documents (keywords in every identifier "
                "position, names colliding after case conversion, recursion through optional / containers / unions / typedefs, container "
                "nesting with every key kind, default literals of every kind, annotations, services with extends / oneway / throws, "
                "multi-file includes with namespaces, protobuf keywords / nesting / proto2 / streaming services / all scalars) + the "
                "repository's golden IDLs; configurations over {single, split} x keep_unknown_fields x change_case x ignore_unused "
                "(quick: default + rotating; thorough: all 16); oracle = builder exit status in a child process and cargo check of the "
                "emitted files against the working-tree runtime",
        "samples": [{"document": units[3].doc["name"], "config": cfg_name(units[3].cfg), "ok": units[3].ok}],
        "programs": len(docs), "units": len(units), "failing_units_before_known_filter": nfail, "exhaustive": False,
        "derive_decision_graphs": dict(getattr(documents, "autoderive_stats", {}), documents_run=len([u for u in units if u.doc["name"].startswith("derive_") and "predicted_ok" in u.doc]),
                                       predicted_failures_confirmed=len([u for u in units if u.doc["name"].startswith("derive_") and u.doc.get("predicted_ok") is False and not u.ok]),
                                       theorem="with the complete type graph the as-built derive(Hash, Eq, Ord) decisions are the ideal ones in every order of the top-level calls, unless an f64 sits behind Arc / btree (checked by TLC on all 28 561 graphs x 6 orders); the type graph before fix 0004637 is refuted"),
        "recursive_type_graphs": dict(getattr(documents, "boxing_stats", {}), documents_run=len([u for u in units if u.doc["name"].startswith("box_")]),
                                      predicted_failures_confirmed=len([u for u in units if u.doc["name"].startswith("box_") and u.doc.get("predicted_ok") is False and not u.ok]),
                                      theorem="after as-built boxing a by-value cycle remains iff the graph has a by-value cycle through union variants and typedefs only (checked by TLC on every graph)"),
    }
    rep.assumptions = ["TLA+ does not decide type-checking: rustc is the oracle; the specification supplies the program space (DESIGN.md 5) "
                       "and the documents that isolate recorded findings (each quarantined in a single-shape document)",
                       "documents outside G_thrift (enums without values) are generated but not judged"]
    return "exploration"
