"""C03 -- Thrift wire format conforms to the Apache protocol specifications (interop)."""
import common as c
import thrift_rt as rt


def run(rep, tier, seed, replay):
    c.build_harness()
    total_evals, total_vecs = 0, 0
    samples = []
    stats = {}
    # pilota -> reference (bytes equal a spec-legal encoding) and reference -> pilota (every legal
    # alternative form decodes to the value) on the value-tree universe, exhaustive i8 and (sampled or
    # complete) i16, and the reference decoder's verdict on all 256 type bytes in every type position,
    # envelopes and the TApplicationException struct
    for vset in ("universe", "ints"):
        vsum, vmism, vst = rt.drive_vectors(tier, vset)
        stats[vset] = vsum
        total_evals += vsum["evaluations"]
        total_vecs += vsum["vectors"]
        for m in vmism:
            if m["check"] in rt.BYTES_CHECKS or m["check"] in ("dec-err", "dec-value", "dec-consumed", "adec-err", "adec-value"):
                rep.violation(rt.cls_of(m), m)
    wsum, wmism, wst, wsample = rt.drive_wire(tier)
    stats["wire"] = wsum
    for m in wmism:
        if m["check"] in ("env-reject-panic", "wire-panic"):
            continue  # totality is C09's statement
        rep.violation({"check": m["check"], "proto": m["proto"], "kind": m.get("buf", "-")}, m)
    rep.cov = {
        "evaluations": total_evals + wsum["evaluations"],
        "distinct_nontrivial": total_vecs + wsum["cases"],
        "rule": "one case = a TLC-evaluated vector of the reference codecs (value tree with its binary / LE / compact encodings in "
                "every legal form; a type byte in a type position with the reference decoder's verdict; an envelope; an "
                "application exception); all are distinct by construction and non-trivial (they carry bytes to compare)",
        "samples": wsample,
        "sets": stats,
        "exhaustive_subspaces": {"type_bytes_per_position": 256, "i8": 256,
                                 "i16": 65536 if tier == "thorough" else "every 97th + extremes (complete in the thorough tier)"},
        "exhaustive": False,
    }
    rep.assumptions = ["the TLA+ modules ThriftBinary / ThriftCompact are the independent codec written from the Apache specifications",
                       "type-code rejection is demanded only where the code must be interpreted (non-empty container, non-stop field)"]
    return "exploration"
