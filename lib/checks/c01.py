"""C01 -- Thrift runtime round trip on every protocol and buffer kind."""
import common as c
import thrift_rt as rt


def run(rep, tier, seed, replay):
    c.build_harness()
    # (1) exhaustive lock-step model + replay of a transition tour on the real compact objects
    wsum, wmism, wmeta, pst, wsample = rt.drive_walks(tier, seed)
    # (2) TLC-evaluated vectors for all protocols x buffers, individually and back to back
    vsum, vmism, vst = rt.drive_vectors(tier)
    # (3) recorded executions validated against the specification
    nvals = 300 if tier == "quick" else 20000
    tp = rt.record(seed, nvals)
    events, runs, rejections, crashed = rt.validate_trace(tp)
    import os
    os.remove(tp)
    selftest = rt.trace_selftest() if tier == "thorough" else True
    if not selftest:
        raise c.ToolError("trace validation self-test failed: a corrupted trace was accepted")
    mine = rt.WRITE_CHECKS | rt.READ_CHECKS | rt.GUARD_CHECKS
    for m in wmism + vmism:
        if m["check"] in mine:
            rep.violation(rt.cls_of(m), m)
    for r in rejections:
        op = r["event"].get("op", "")
        if op.startswith("l_"):
            continue  # C04's business
        rep.violation({"check": "trace-rejected", "proto": r["run_head"].get("p"), "op": op}, r)
    for r in crashed:
        import json
        h = json.loads(r[0])
        rep.violation({"check": "record-crash", "proto": h.get("p"), "err": h.get("err")[:80]}, {"run": r[:50]})
    ids = rt.compact_ids_inductive()
    rep.cov = {
        "compact_field_id_channel_inductive": ids,
        "states": pst["distinct"], "transitions": pst["generated"],
        "traces_validated_against_impl": runs + wsum["walks"],
        "samples": [{"walk": {"id": wsample["id"], "steps": wsample["steps"][:6]}}],
        "evaluations": wsum["evaluations"] + vsum["evaluations"] + events,
        "distinct_nontrivial": wmeta["transitions"] + vsum["vectors"],
        "rule": "distinct = transitions of the lock-step model each replayed on the real compact writer/length pass/reader "
                "(bytes, return values, private state after every step) + TLC-evaluated value trees driven through "
                "{bin,binle,compact,unsafe} x {BytesMut,LinkedBytes,LinkedBytes zero-copy}; non-trivial = the step or "
                "vector produces bytes or changes protocol state",
        "model": {"module": "ThriftProto", "cfg": pst["cfg"], "distinct_states": pst["distinct"], "steps_evaluated": pst["generated"]},
        "transition_tour": wmeta, "vectors": vsum, "vector_oracle_theorems_checked_by_tlc": True,
        "trace": {"events_validated": events, "runs_validated": runs, "values": nvals, "rejections": len(rejections),
                  "selftest_corrupt_and_drop_rejected": selftest},
        "exhaustive": False,
    }
    rep.assumptions = ["reference codecs written from the Apache specifications (spec/ThriftBinary.tla, spec/ThriftCompact.tla)",
                       "values between boundary classes are sampled (seeded) and validated exactly, not exhausted",
                       "harness value interpreter and verif_state() hook are plumbing (no codec logic)"]
    return "model_checking"
