"""C09 -- safe Thrift decoders are total: arbitrary bytes give a value or an error."""
import nesting
import json, os, random, re
import common as c
import gen, gencheck, faults
import thrift_rt as rt

MIB = 1 << 20


def alloc_limit(n):
    return MIB + 1024 * n


def classify_err(r):
    e = str(r.get("err", ""))
    if r.get("crash"):
        if "memory allocation of" in e:
            return "alloc-abort"
        if r.get("timeout"):
            return "hang"
        if "stack overflow" in e or r.get("rc") in (-11, 139, -6, 134) and "overflow" in e:
            return "stack-overflow"
        return "crash"
    if r.get("hang"):
        return "hang"
    if r.get("panic"):
        if "capacity overflow" in e:
            return "panic-capacity-overflow"
        return "panic"
    return None


def run(rep, tier, seed, replay):
    c.build_harness()
    rnd = random.Random(seed)
    # generated-type corpus must be built so that the worker exists (also serves the runtime decoders)
    cases, res, units, cst = gencheck.results(tier, seed)
    fpath, fst = c.cached_tlc_file("faults-" + tier, "MCFaults", [tier], {"VERIF_TIER": tier}, timeout=1800)
    vecs = c.read_ndjson(fpath)
    reqs, meta = [], []

    def flush():
        if not reqs:
            return
        stat["total"] += len(reqs)
        if stat["sample"] is None:
            stat["sample"] = {"meta": meta[len(meta) // 2], "input": reqs[len(meta) // 2]["input"][:40] if isinstance(reqs[len(meta) // 2]["input"], list) else reqs[len(meta) // 2]["input"]}
        out = gen.run_worker(reqs, tag="c09")
        for i, m in enumerate(meta):
            r = out.get(i, {"ok": False, "err": "harness: no response", "tool_error": True})
            if r.get("tool_error"):
                raise c.ToolError("worker: " + r.get("err", ""))
            stat["maxalloc"] = max(stat["maxalloc"], (r.get("alloc") or {}).get("max", 0))
            bad = classify_err(r)
            data = reqs[i]["input"]
            if m["fault"] == "nest" and m["detail"][1] == 3:
                stat["nest_sanity"][0] += 1
                if not r.get("ok"):
                    stat["nest_sanity"][1].append({"decoder": m["ty"], "proto": m["proto"], "mode": m["mode"], "nest": m["detail"], "observed": str(r.get("err"))[:120]})
            if bad is None and m["fault"] == "truncate" and r.get("ok") and (m["t"] == 12 or m["site"] != "runtime-generic"):
                # every strict prefix of a valid struct encoding is rejected with an error
                bad = "prefix-accepted"
            if bad is None:
                continue
            stat["n_crash"] += 1
            site = m["site"].split(":")[0]
            fault = m["fault"]
            msg = "pending-bool" if "pending bool" in str(r.get("err")) else "-"
            cls = {"check": bad, "site": site, "mode": m["mode"], "fault": fault if bad != "prefix-accepted" else "truncate",
                   "def": m.get("def", "-"), "msg": msg}
            if fault == "nest":
                cls["nest"] = m["detail"][0]
                cls["via"] = m["detail"][2] if len(m["detail"]) > 2 else "skip"
                cls["proto"] = m["proto"]
            rep.violation(cls, {"decoder": m["ty"], "schema": m.get("schema"), "idl_type": m.get("idl_type"), "wire_type": m["t"],
                                "proto": m["proto"], "mode": m["mode"], "fault": [m["fault"], m["detail"]], "input": data,
                                "observed": {k: v for k, v in r.items() if k != "alloc"}, "alloc_limit": reqs[i]["alloc_limit"]})

        reqs.clear()
        meta.clear()

    stat = {"n_crash": 0, "maxalloc": 0, "nest_sanity": [0, []], "total": 0, "sample": None}

    def add(ty, t, proto, mode, kind, detail, data, site):
        if len(reqs) >= 30000:
            flush()       # bounded memory: run and judge what has accumulated, then go on
        rid = len(reqs)
        n = nesting.size(data) if isinstance(data, dict) else len(data)
        r = {"id": rid, "ty": ty, "proto": proto, "mode": mode, "op": "decode", "input": data, "alloc_limit": alloc_limit(n)}
        if t is not None:
            r["t"] = t
        if mode == "async":
            r["sched"] = "bytewise" if rid % 2 else "whole"
        reqs.append(r)
        meta.append({"site": site, "proto": proto, "mode": mode, "fault": kind, "detail": detail, "ty": ty, "t": t})

    max_flips = 24 if tier == "quick" else None
    # (1) the hand-written runtime decoders (generic value reader over the primitive API)
    for v in vecs:
        for proto, key, mk in (("bin", "bin", "mbin"), ("binle", "binle", "mbin"), ("compact", "cs", "mc")):
            for kind, detail, data in faults.faults(v[key], v[mk], proto, rnd, max_flips):
                for mode in ("sync", "async"):
                    add("@rt", v["t"], proto, mode, kind, detail, data, "runtime-generic")
    # (2) TApplicationException
    ax = [11, 0, 1, 0, 0, 0, 3, 97, 98, 99, 8, 0, 2, 0, 0, 0, 6, 0]
    axm = [{"pos": 0, "w": 1, "kind": "type"}, {"pos": 1, "w": 2, "kind": "id"}, {"pos": 3, "w": 4, "kind": "len"},
           {"pos": 10, "w": 1, "kind": "type"}, {"pos": 11, "w": 2, "kind": "id"}]
    for kind, detail, data in faults.faults(ax, axm, "bin", rnd, None):
        for mode in ("sync", "async"):
            add("@appexc", None, "bin", mode, kind, detail, data, "application-exception")
    # (3) generated decoders: valid encodings of the corpus with the same faults
    base = [cs for cs in cases if cs["kind"] == "base" and cs["how"] == "v1" and cs["ok"]]
    rnd.shuffle(base)
    take = base[: (40 if tier == "quick" else 400)]
    for cs in take:
        path = gen.find_type(units, cs["sid"], cs["ty"])
        if path is None:
            continue
        for proto, key, mk in (("bin", "bin", "mbin"), ("binle", "binle", "mbin"), ("compact", "cs", "mc")):
            if len(cs[key]) > 400:
                continue
            fl = list(faults.faults(cs[key], cs[mk], proto, rnd, 16 if tier == "quick" else 64))
            if tier == "quick":
                trunc = [f for f in fl if f[0] == "truncate"]
                other = [f for f in fl if f[0] != "truncate"]
                fl = (trunc if len(trunc) <= 40 else rnd.sample(trunc, 40)) + other
            for kind, detail, data in fl:
                for mode in ("sync", "async"):
                    add(path, None, proto, mode, kind, detail, data, "generated:" + cs["how"])
                    meta[-1]["def"] = "union" if cs["isunion"] else "struct"
                    meta[-1]["schema"] = cs["sid"]
                    meta[-1]["idl_type"] = cs["ty"]
    # (4) fault action Nest(kind, depth): a value nested through one kind of composite, far beyond the documented skip budget of
    # 64, handed (a) to each protocol's own skipper, (b) to generated decoders as a field no schema declares (with and without
    # retention), (c) to the generated decoder of a recursive struct as KNOWN fields.  Depth 3 is the generator's sanity probe.
    depths = [3, 63, 64, 65, 1000, 100000] if tier == "quick" else [3, 63, 64, 65, 66, 1000, 10000, 100000, 250000]
    sids = sorted({cs["sid"] for cs in cases})[:2]
    hosts = []
    for sid in sids:
        for suffix in ("", "k"):
            for tyname in ("MutA", "Ex1", "Rec1", "U1"):
                path = gen.find_type(units, sid + suffix, tyname)
                if path:
                    hosts.append((path, suffix, tyname))
    n_nest0 = stat["total"] + len(reqs)
    for proto in ("bin", "binle", "compact"):
        for kind in nesting.KINDS:
            for d in depths:
                if kind != "rec1":
                    v = nesting.value(kind, d, proto)
                    for mode in ("sync", "async"):
                        add("@rt", nesting.WIRE[kind], proto, mode, "nest", [kind, d], v, "runtime-skip")
                        reqs[-1]["op"] = "skip"
                        reqs[-1]["sched"] = "whole"
                    if d in (3, 65, 100000):
                        fld = nesting.as_unknown_field(kind, d, proto)
                        for path, suffix, tyname in hosts:
                            if tyname == "Rec1":
                                continue
                            if tyname == "U1":      # a union needs its one member: 1: i64 n = 0, then the undeclared field
                                member = [0x16, 0] if proto == "compact" else [10] + ([1, 0] if proto == "binle" else [0, 1]) + [0] * 8
                                fld = dict(nesting.as_unknown_field(kind, d, proto))
                                fld["head"] = member + fld["head"]
                            else:
                                fld = nesting.as_unknown_field(kind, d, proto)
                            for mode in ("sync", "async"):
                                add(path, None, proto, mode, "nest", [kind, d, "unknown-field", "keep" if suffix else "skip"], fld, "generated:nest-unknown")
                                reqs[-1]["sched"] = "whole"
                                meta[-1]["def"] = "union" if tyname == "U1" else "struct"
                else:
                    v = nesting.value(kind, d, proto)
                    for path, suffix, tyname in hosts:
                        if tyname != "Rec1":
                            continue
                        for mode in ("sync", "async"):
                            add(path, None, proto, mode, "nest", [kind, d, "known-field", "keep" if suffix else "skip"], v, "generated:nest-known")
                            reqs[-1]["sched"] = "whole"
                            meta[-1]["def"] = "struct"
    n_nest = stat["total"] + len(reqs) - n_nest0
    flush()
    # panics / crashes seen on the WELL-FORMED inputs of the generated corpus belong here too
    extra = gencheck.add_tagged(rep, "C09", tier, seed)
    # runtime interoperability cases that panicked (C03's wire cases)
    wsum, wmism, _, _ = rt.drive_wire(tier)
    for m in wmism:
        if m["check"] in ("env-reject-panic", "wire-panic"):
            rep.violation({"check": "panic", "site": "runtime-" + m["check"], "mode": "sync", "fault": "malformed", "def": "-"}, m)
    rep.cov = {
        "evaluations": stat["total"], "distinct_nontrivial": stat["total"],
        "rule": "one case = (decoder, protocol, sync/async, fault applied to a valid encoding): every truncation point, "
                + ("24 seeded" if tier == "quick" else "all") + " single-bit flips per message for the runtime decoders, every length / count / "
                "type / id position of the TLC-computed encoding map overwritten with {-1,0,1,remaining-1,remaining+1,i32::MAX,u32::MAX} "
                "(compact: varints incl. unterminated); nesting through every composite kind to depth 100 000 (skippers, unknown fields of "
                "generated decoders, known fields of a recursive struct); run in an isolated worker with a counting allocator that refuses any single "
                "request above 1 MiB + 1024 x input length",
        "samples": [stat["sample"]],
        "fault_positions_from_tlc": fst, "vectors": len(vecs), "generated_types_faulted": len(take),
        "nesting_probes": {"requests": n_nest, "depths": depths, "kinds": list(nesting.KINDS),
                           "depth3_sanity_probes": stat["nest_sanity"][0], "depth3_not_ok": stat["nest_sanity"][1][:10]},
        "largest_single_allocation_observed": stat["maxalloc"], "violations_before_known_filter": stat["n_crash"],
        "exhaustive": False,
    }
    rep.cov.update(extra)
    rep.assumptions = ["inputs are spec-derived (valid encodings and their enumerated faults); grammar-free fuzzing is a different technique and is not claimed",
                       "only ok/err is compared, never error kinds; any non-crashing outcome is accepted except on strict prefixes of a struct"]
    return "fault_enumeration"
