"""C17 -- code generation is deterministic."""
import re
import glob, hashlib, os, shutil, tempfile
import common as c
import gen, gencheck, pbcheck, schemas, pbschemas
import thrift_rt as rt

NEST_PROTO = '''syntax = "proto3";
message Holder {
  message Alpha { int32 a = 1; message Deep1 { int32 x = 1; } message Deep2 { string y = 1; } Deep1 d1 = 2; Deep2 d2 = 3; }
  message Beta { string b = 1; }
  message Gamma { repeated int64 g = 1; }
  message Delta { bool d = 1; }
  enum Kind { K_ZERO = 0; K_ONE = 1; }
  enum Mode { M_ZERO = 0; M_TWO = 2; }
  Alpha alpha = 1;
  Beta beta = 2;
  Gamma gamma = 3;
  Delta delta = 4;
  Kind kind = 5;
  Mode mode = 6;
  map<string, Beta> named = 7;
  oneof pick { Gamma og = 8; Delta od = 9; }
}
message Second { message Inner1 { int32 i = 1; } message Inner2 { int32 j = 1; } Inner1 a = 1; Inner2 b = 2; }
'''


# several files sharing packages / namespaces: the order in which the front end lowers FILES must not show in the output
MULTI_PROTO = {
    "mf_main.proto": 'syntax = "proto3";\npackage shop.core;\nimport "mf_user.proto";\nimport "mf_common.proto";\nimport "mf_item.proto";\nimport "mf_pay.proto";\n'
                     'message Order { shop.core.User buyer = 1; repeated shop.core.Item items = 2; shop.base.Stamp at = 3; shop.base.Money total = 4; shop.pay.Receipt r = 5; }\n'
                     'message OrderList { repeated Order orders = 1; }\n',
    "mf_user.proto": 'syntax = "proto3";\npackage shop.core;\nimport "mf_common.proto";\nmessage User { string name = 1; shop.base.Stamp joined = 2; Address home = 3; }\nmessage Address { string street = 1; }\n',
    "mf_item.proto": 'syntax = "proto3";\npackage shop.core;\nimport "mf_common.proto";\nmessage Item { string sku = 1; shop.base.Money price = 2; Kind kind = 3; }\nenum Kind { KIND_ZERO = 0; KIND_ONE = 1; }\n',
    "mf_common.proto": 'syntax = "proto3";\npackage shop.base;\nmessage Stamp { int64 secs = 1; }\nmessage Money { int64 units = 1; string currency = 2; }\n',
    "mf_pay.proto": 'syntax = "proto3";\npackage shop.pay;\nimport "mf_common.proto";\nmessage Receipt { shop.base.Money paid = 1; shop.base.Stamp at = 2; }\n',
}
MULTI_THRIFT = {
    "mt_main.thrift": 'include "mt_user.thrift"\ninclude "mt_common.thrift"\ninclude "mt_item.thrift"\nnamespace rs shop.core\n'
                      'struct Order { 1: mt_user.User buyer, 2: list<mt_item.Item> items, 3: mt_common.Stamp at }\n'
                      'service Shop { Order get(1: mt_user.User u) throws (1: mt_common.Oops e), void put(1: Order o) }\n',
    "mt_user.thrift": 'include "mt_common.thrift"\nnamespace rs shop.core\nstruct User { 1: string name, 2: mt_common.Stamp joined }\nstruct Address { 1: string street }\n',
    "mt_item.thrift": 'include "mt_common.thrift"\nnamespace rs shop.core\nstruct Item { 1: string sku, 2: mt_common.Money price, 3: Kind kind }\nenum Kind { ONE = 1, TWO = 2 }\n',
    "mt_common.thrift": 'namespace rs shop.base\nstruct Stamp { 1: i64 secs }\nstruct Money { 1: i64 units, 2: string currency }\nexception Oops { 1: string why }\n',
}


def tree_hash(root):
    h = {}
    for dp, dn, fn in os.walk(root):
        for f in fn:
            p = os.path.join(dp, f)
            h[os.path.relpath(p, root)] = hashlib.sha256(open(p, "rb").read()).hexdigest()
    return h


def run(rep, tier, seed, replay):
    c.build_harness()
    mc = rt.cached_model_check("codegen-pipeline", "MCCodegenPipeline", "MCCodegenPipeline.cfg", tier, workers=4)
    # the defective variants of the design must be refuted by the model (else the model is vacuous)
    refuted = [rt.cached_model_refutation("codegen-pipeline-nested-hash", "MCCodegenPipeline", "MCCodegenPipelineHash.cfg", tier, "OutputIsFunctionOfInput"),
               rt.cached_model_refutation("codegen-pipeline-file-hash", "MCCodegenPipeline", "MCCodegenPipelineFileHash.cfg", tier, "OutputIsFunctionOfInput"),
               rt.cached_model_refutation("codegen-pipeline-item-hash", "MCCodegenPipeline", "MCCodegenPipelineItemHash.cfg", tier, "OutputIsFunctionOfInput"),
               rt.cached_model_refutation("codegen-pipeline-worker-names", "MCCodegenPipeline", "MCCodegenPipelineWorkerNames.cfg", tier, "SplitOutputIsFunctionOfInput")]
    # corpus: generated schemas, the repository's golden IDLs, and a .proto with several sibling nested messages / enums
    d = os.path.join(c.OUT, "corpus", f"c17-{tier}-{seed}")
    os.makedirs(d, exist_ok=True)
    idls = []
    for s in gencheck.corpus_for(tier, seed):
        p = os.path.join(d, s["name"] + ".thrift")
        open(p, "w").write(schemas.render(s))
        idls.append(("thrift", p, None))
    for s in pbcheck.corpus_for(tier, seed):
        p = os.path.join(d, s["name"] + ".proto")
        open(p, "w").write(pbschemas.render(s))
        idls.append(("proto", p, d))
    p = os.path.join(d, "nest.proto")
    open(p, "w").write(NEST_PROTO)
    idls.append(("proto", p, d))
    for name, txt in list(MULTI_PROTO.items()) + list(MULTI_THRIFT.items()):
        open(os.path.join(d, name), "w").write(txt)
    idls.append(("proto", os.path.join(d, "mf_main.proto"), d))
    idls.append(("thrift", os.path.join(d, "mt_main.thrift"), d))
    gold_t = sorted(glob.glob(os.path.join(c.REPO, "pilota-build/test_data/thrift/*.thrift")))
    gold_p = sorted(glob.glob(os.path.join(c.REPO, "pilota-build/test_data/protobuf/*.proto")))
    if tier == "quick":
        gold_t = [g for g in gold_t if os.path.basename(g) in ("multi.thrift", "default_value.thrift", "wrapper_arc.thrift", "pilota_name.thrift", "normal.thrift")]
    idls += [("thrift", g, os.path.dirname(g)) for g in gold_t] + [("proto", g, os.path.dirname(g)) for g in gold_p]
    threads = [1, 2, 5, 16] if tier == "quick" else [1, 2, 3, 4, 5, 6, 8, 11, 16, 16, 1, 7]
    runs = 0
    samples = []
    def one(job):
        kind, path, inc, mode, t = job
        td = tempfile.mkdtemp(prefix="c17-", dir=c.OUT)
        try:
            # "unused": the builder's default ignore_unused(true): only what a service reaches is collected and emitted
            u = gen.Unit("gen", path, kind=kind, split=(mode in ("split", "workspace-split")), ignore_unused=(mode == "unused"), include=inc,
                         workspace=mode.startswith("workspace"), more_idls=WS.get(path, ()) if mode.startswith("workspace") else ())
            gen.run_builder(u, td, env={"RAYON_NUM_THREADS": str(t)})
            return (t, u.ok, u.status, tree_hash(td))
        finally:
            shutil.rmtree(td, ignore_errors=True)

    # independent builder processes, a few at a time (each is its own process with its own hash seeds and rayon pool)
    import concurrent.futures
    def modes_of(path):
        has_service = bool(re.search(r"^\s*service\s", open(path).read(), re.M))
        return ("single", "split", "unused") if has_service else ("single", "split")

    # workspace mode (one crate per entry IDL + a common crate): the repository's own workspace input and the multi-file set
    wsdir = os.path.join(c.REPO, "pilota-build/test_data/thrift_workspace/input")
    WS = {os.path.join(wsdir, "article.thrift"): [os.path.join(wsdir, "author.thrift"), os.path.join(wsdir, "image.thrift")],
          os.path.join(d, "mt_main.thrift"): [os.path.join(d, "mt_user.thrift"), os.path.join(d, "mt_item.thrift")]}
    WS = {k: v for k, v in WS.items() if os.path.exists(k)}
    jobs = [(kind, path, inc, mode, t) for kind, path, inc in idls for mode in modes_of(path) for t in threads]
    jobs += [("thrift", path, os.path.dirname(path), mode, t) for path in WS for mode in ("workspace", "workspace-split") for t in threads]
    idls = idls + [("thrift", path, os.path.dirname(path)) for path in WS if not any(i[1] == path for i in idls)]
    with concurrent.futures.ThreadPoolExecutor(max_workers=6) as ex:
        results = list(ex.map(one, jobs))
    by = {}
    for job, r in zip(jobs, results):
        by.setdefault((job[0], job[1], job[3]), []).append(r)
    for kind, path, inc in idls:
        for mode in [m for m in modes_of(path) + ("workspace", "workspace-split") if (kind, path, m) in by]:
            hashes = by[(kind, path, mode)]
            runs += len(hashes)
            oks = {h[1] for h in hashes}
            if oks == {False}:
                continue      # the builder refuses this document every time: C14's business, not C17's
            ref = hashes[0]
            for h in hashes[1:]:
                if h[1] != ref[1] or h[3] != ref[3]:
                    files = sorted(set(ref[3]) | set(h[3]))
                    diff = [f for f in files if ref[3].get(f) != h[3].get(f)]
                    rep.violation({"check": "output-differs", "kind": kind, "mode": mode},
                                  {"idl": path, "mode": mode, "threads": [ref[0], h[0]], "differing_files": diff[:10],
                                   "builder_ok": [ref[1], h[1]]})
                    break
            if len(samples) < 3:
                samples.append({"idl": os.path.basename(path), "mode": mode, "files": len(ref[3]), "sha256": sorted(ref[3].values())[:2]})
    rep.cov = {
        "states": mc["distinct"], "transitions": mc["generated"], "traces_validated_against_impl": runs,
        "samples": samples,
        "evaluations": runs, "distinct_nontrivial": len(idls) * 2,
        "rule": "one case = (IDL document, {single-file, split}) generated by independent builder processes (fresh std RandomState and ahash "
                "seeds each) with RAYON_NUM_THREADS in " + str(threads) + " into identically named outputs in separate directories; SHA-256 "
                "of every emitted file must agree.  Model: CodegenPipeline (all hash iteration orders x all interleavings of 3 workers over 3 "
                "modules) with nested messages lowered in declaration order satisfies OutputIsFunctionOfInput; with hash-order lowering "
                "(MCCodegenPipelineHash.cfg, the behaviour before the fix) TLC produces the counterexample the corpus file nest.proto exercises; "
                "with files lowered in hash order (MCCodegenPipelineFileHash.cfg) the counterexample the multi-file corpora mf_*.proto / mt_*.thrift exercise",
        "model": mc, "defective_variants_refuted_by_model": refuted, "exhaustive": False,
    }
    rep.assumptions = ["rayon schedules inside one process are observed, not controlled; control is on the model and across processes / thread counts",
                       "workspace mode is not exercised (its generation step shells out to cargo, which needs the network for the generated crates)"]
    return "model_checking"
