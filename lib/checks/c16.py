"""C16 -- the Thrift IDL parser is total on arbitrary text.

Faults (lib/idlfaults.py) over the documents TLC printed for C15, nesting generators and seeded random
text are parsed by `File::parse` on a worker thread with a fixed 2 MiB stack (`drive idl-faults`).
Oracle: the call returns Ok or Err.  A panic, a hang, or a death of the process (stack overflow) is a
violation, except that nesting deeper than 64 levels is probed for information only."""
import collections, json, os, re
import common as c
import idl, idlfaults


def site_of(m):
    r = m.get("role", "")
    if r.endswith(".id"):
        return "field-id"
    return r or m.get("gen", "-")


def where_of(loc):
    # /repo/pilota-thrift-parser/src/parser/field.rs:30 -> parser/field.rs
    mm = re.search(r"src/(.*?):\d+$", loc or "")
    return mm.group(1) if mm else (loc or "-")


def run(rep, tier, seed, replay):
    c.build_harness()
    if replay:
        r = json.load(open(replay))["replay"]
        res, _ = idlfaults.run([{"id": 0, "text": r["text"]}], "replay")
        c.log("replay:", json.dumps(res[0])[:1000])
        if res[0]["res"] == "panic":
            rep.violation({"check": "panic", "where": where_of(res[0].get("loc")), "msg": re.sub(r"\d+", "N", res[0]["msg"])[:100], "replay": True},
                          dict(r, observed_now=res[0]))
        elif res[0]["res"] not in ("ok", "err", "not_utf8"):
            rep.violation({"check": res[0]["res"], "replay": True}, dict(r, observed_now=res[0]))
        rep.cov = {"evaluations": 1, "distinct_nontrivial": 1, "rule": "replay of one recorded text", "samples": [r["text"][:200]]}
        return "fault_enumeration"
    path, st = idl.cases(tier, seed)
    docs = idl.load_cases(path)
    cases, meta = idlfaults.enumerate_faults(docs, tier, seed)
    res, restarts = idlfaults.run(cases, tier)
    if len(res) != len(cases):
        raise c.ToolError(f"{len(cases) - len(res)} fault cases have no result")

    by_fault = collections.Counter()
    outcomes = collections.Counter()
    texts = set()
    nest = collections.defaultdict(lambda: {"deepest_ok_or_err": 0, "first_death": None})
    classes = collections.Counter()
    for case, m in zip(cases, meta):
        r = res[m["id"]]
        by_fault[m["fault"]] += 1
        outcomes[r["res"]] += 1
        texts.add(json.dumps(case.get("p") or case.get("text") or case.get("bytes")))
        if m["fault"] == "nesting":
            g = nest[m["gen"]]
            if r["res"] in ("ok", "err"):
                g["deepest_ok_or_err"] = max(g["deepest_ok_or_err"], m["depth"])
            elif g["first_death"] is None or m["depth"] < g["first_death"]:
                g["first_death"] = m["depth"]
        if r["res"] in ("ok", "err", "not_utf8"):
            continue
        if m["fault"] == "nesting" and not m["judged"]:
            continue                      # deeper than 64: information only
        if r["res"] == "panic":
            cls = {"check": "panic", "where": where_of(r.get("loc")), "msg": re.sub(r"\d+", "N", r["msg"])[:100],
                   "site": site_of(m), "fault": m["fault"]}
        elif r["res"] == "crash":
            cls = {"check": "stack-overflow" if r.get("stack_overflow") else "process-death", "site": site_of(m), "fault": m["fault"]}
        else:
            cls = {"check": r["res"], "site": site_of(m), "fault": m["fault"]}
        classes[json.dumps(cls, sort_keys=True)] += 1
        rep.violation(cls, {"fault": m, "text": idlfaults.case_text(case), "result": r, "stack_bytes": 2 * 1024 * 1024})

    some = [i for i, m in enumerate(meta) if m["fault"] in ("number-inflate", "replace", "truncate", "nesting")]
    picks = []
    seen = set()
    for i in some:
        if meta[i]["fault"] not in seen:
            seen.add(meta[i]["fault"])
            picks.append({"fault": meta[i], "text": idlfaults.case_text(cases[i])[:300], "result": res[i]["res"]})
    rep.cov = {
        "evaluations": len(cases), "distinct_nontrivial": len(texts),
        "rule": "one case = one text handed to File::parse on a 2 MiB thread; distinct = distinct texts (piece lists / byte strings); "
                "non-trivial = each is a fault action on a printed document of spec/MCIdl.tla, a nesting generator at one depth, or a "
                "seeded random text",
        "samples": picks,
        "by_fault": dict(by_fault), "outcomes": dict(outcomes), "process_restarts": restarts,
        "documents": len(docs), "nesting": {k: v for k, v in sorted(nest.items())},
        "judged_nesting_depth": idlfaults.JUDGED_DEPTH, "stack_bytes": 2 * 1024 * 1024,
        "finding_classes": dict(classes.most_common(40)), "tlc": st, "exhaustive": False,
    }
    rep.assumptions = [
        "the stack bound is observed on the harness build profile (dev, opt-level 1, overflow checks on); frame sizes of a release "
        "build differ",
        "bytes that are not UTF-8 cannot be passed to File::parse(&str) (pilota-build reads sources with read_to_string); they are "
        "generated and counted but not judged",
        "nesting deeper than 64 levels is probed for information (first depth at which the worker dies), not judged",
        "a hang is a parse that does not return within 10 s",
    ]
    return "fault_enumeration"
