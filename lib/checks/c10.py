"""C10 -- protobuf decoders are total and bounded on arbitrary bytes."""
import random
import common as c
import gen, pbcheck, faults

RECURSION_LIMIT = 100


def varint(n):
    out = []
    while True:
        b = n & 0x7f
        n >>= 7
        if n:
            out.append(b | 0x80)
        else:
            out.append(b)
            return out


def len_marks(b, base=0, depth=0):
    """Offsets of length prefixes in a VALID encoding (mechanical walk; nested payloads that parse as records are descended)."""
    marks, i, n = [], 0, len(b)
    try:
        while i < n:
            k, j = 0, i
            sh = 0
            while True:
                x = b[j]; j += 1
                k |= (x & 0x7f) << sh; sh += 7
                if x < 0x80:
                    break
            wt = k & 7
            if wt == 0:
                while b[j] >= 0x80:
                    j += 1
                j += 1
            elif wt == 1:
                j += 8
            elif wt == 5:
                j += 4
            elif wt == 2:
                l, s0, sh = 0, j, 0
                while True:
                    x = b[j]; j += 1
                    l |= (x & 0x7f) << sh; sh += 7
                    if x < 0x80:
                        break
                marks.append({"pos": base + s0, "w": j - s0, "kind": "len", "l": l, "depth": depth})
                if depth < 4 and l >= 2:
                    sub = len_marks(b[j:j + l], base + j, depth + 1)
                    if sub is not None:
                        marks += sub
                j += l
            else:
                return None
            if j > n:
                return None
            i = j
    except IndexError:
        return None
    return marks


def nest(depth, how):
    inner = [0x08, 0x01]
    for _ in range(depth):
        if how == "next":
            inner = [0x12] + varint(len(inner)) + inner
        elif how == "kids":
            inner = [0x1a] + varint(len(inner)) + inner
        elif how == "named":
            ent = [0x0a, 0x01, 0x6b, 0x12] + varint(len(inner)) + inner
            inner = [0x22] + varint(len(ent)) + ent
        elif how == "unknown-group":
            tag = 19003
            inner = varint((tag << 3) | 3) + inner + varint((tag << 3) | 4)
        elif how == "unknown-len":
            inner = varint((19002 << 3) | 2) + varint(len(inner)) + inner
        elif how == "known-group":      # KGroup.deep = 16 (group), runtime kinds
            inner = varint((16 << 3) | 3) + (inner if _ else [0x18, 0x01]) + varint((16 << 3) | 4)
        elif how == "btree-map-value":  # KBtree.c = 3: map<uint64, KLeaf>; nesting continues through an undeclared field of KLeaf
            ent = [0x08, 0x01, 0x12] + varint(len(inner)) + inner
            inner = [0x1a] + varint(len(ent)) + ent
    return inner


def run(rep, tier, seed, replay):
    c.build_harness()
    rnd = random.Random(seed)
    finds, cov, cases, pss, punits, sp = pbcheck.analyse(tier, seed)
    reqs, meta = [], []

    def add(path, op, data, m):
        reqs.append({"id": len(reqs), "ty": path, "op": op, "input": data, "alloc_limit": (1 << 20) + 1024 * len(data)})
        meta.append(m)

    canon = [cs for cs in cases if cs["kind"] == "canon" and cs["how"] == "v1" and len(cs["in"]) <= 700]
    for cs in canon:
        path = gen.find_type(punits, cs["sid"], cs["ty"])
        enc = cs["in"]
        marks = len_marks(enc) or []
        fl = list(faults.faults(enc, [], "pb", rnd, 24 if tier == "quick" else 200))
        trunc = [f for f in fl if f[0] == "truncate"]
        if tier == "quick" and len(trunc) > 60:
            trunc = rnd.sample(trunc, 60)
        fl = trunc + [f for f in fl if f[0] != "truncate"]
        for mk in marks:
            rem = len(enc) - (mk["pos"] + mk["w"])
            # (the last three: a length whose LOW 32 bits fit the remaining input while the value itself does not)
            for v in (0, 1, max(0, rem - 1), rem + 1, 2**31 - 1, 2**32 - 1, 2**63 - 1, 2**64 - 1, 2**32, 2**32 + max(0, rem - 1), 2**40 + 1):
                vb = []
                x = v
                while True:
                    bb = x & 0x7f
                    x >>= 7
                    if x:
                        vb.append(bb | 0x80)
                    else:
                        vb.append(bb)
                        break
                # "a length prefix that exceeds the remaining input is rejected": demanded for the prefixes of TOP-LEVEL records
                # (the mechanical walk may take bytes inside a string for a nested prefix; the top level is unambiguous)
                must = "err" if (mk["depth"] == 0 and v > rem) else None
                fl.append(("overwrite-len", [mk["pos"], v], enc[:mk["pos"]] + vb + enc[mk["pos"] + mk["w"]:], must))
        fl += list(faults.pb_payload_faults(enc)) + list(faults.pb_key_faults(enc))
        top = [mk for mk in marks if mk["depth"] == 0]
        for f in fl:
            kind, detail, data = f[0], f[1], f[2]
            must = f[3] if len(f) > 3 else None
            if kind == "truncate" and any(mk["pos"] + mk["w"] <= len(data) < mk["pos"] + mk["w"] + mk["l"] for mk in top):
                must = "err"          # cut inside the payload of a top-level record: its prefix exceeds what is left
            add(path, "decode", data, {"site": "generated", "fault": kind, "detail": detail, "msg": cs["ty"], "schema": cs["sid"], "expect": must})
            if kind != "bitflip":
                add(path, "ld", varint(len(data)) + data, {"site": "length-delimited", "fault": kind, "detail": detail, "msg": cs["ty"], "schema": cs["sid"], "expect": must})
        # a length-delimited frame whose prefix exceeds the payload
        for v in (len(enc) + 1, 2**31 - 1, 2**64 - 1):
            vb, x = [], v
            while True:
                bb = x & 0x7f
                x >>= 7
                if x:
                    vb.append(bb | 0x80)
                else:
                    vb.append(bb)
                    break
            add(path, "ld", vb + enc, {"site": "length-delimited", "fault": "frame-length", "detail": v, "msg": cs["ty"], "schema": cs["sid"], "expect": "err"})
    # nesting 1..300 through the recursive message of each schema, and through unknown groups / payloads
    depths = [1, 2, 50, 99, 100, 101, 102, 150, 300] if tier == "quick" else list(range(1, 301))
    for sch in pss:
        if sch.get("runtime"):
            path = gen.find_type(punits, sch["name"], "KGroup")
            for d in depths:
                # a group field costs one level of the budget per nesting level
                exp = "ok" if d <= 90 else ("err" if d > RECURSION_LIMIT + 1 else "any")
                add(path, "decode", nest(d, "known-group"), {"site": "nesting:known-group", "fault": "nest", "detail": d, "msg": "KGroup", "schema": sch["name"], "expect": exp})
            continue
        rec = [m for m in sch["messages"] if m["name"].startswith("Rec")][0]
        path = gen.find_type(punits, sch["name"], rec["name"])
        for how in ("next", "kids", "named", "unknown-group", "unknown-len"):
            for d in depths:
                # as built, a plain embedded / repeated message costs one level of the budget; a map-valued message two
                # (entry + value) and a group one plus one for the field inside: only the documented direction is
                # demanded for those (beyond 100 -> error; well within -> decodes)
                if how == "unknown-len":
                    exp = "any"
                elif how in ("next", "kids"):
                    exp = "ok" if d <= RECURSION_LIMIT else "err"
                else:
                    exp = "ok" if d <= 49 else ("err" if d > RECURSION_LIMIT else "any")
                add(path, "decode", nest(d, how), {"site": "nesting:" + how, "fault": "nest", "detail": d, "msg": rec["name"], "schema": sch["name"], "expect": exp})
    # the recursion budget as a model: every check / enter of the real decoder (hook) against spec/PbBudget.tla
    nested = []
    for sch in pss:
        if sch.get("runtime"):
            for d in (1, 2, 50, 99, 100, 101):
                nested.append((sch["name"], "KGroup", nest(d, "known-group"), f"nesting:known-group:{d}"))
            continue
        rec = [m for m in sch["messages"] if m["name"].startswith("Rec")][0]
        for how in ("next", "kids", "named", "unknown-group", "unknown-len"):
            for d in ((1, 50, 51, 100, 101) if tier == "quick" else (1, 2, 49, 50, 51, 99, 100, 101, 150)):
                nested.append((sch["name"], rec["name"], nest(d, how), f"nesting:{how}:{d}"))
    budget = pbcheck.budget_check(rep, tier, seed, nested)
    out = gen.run_worker(reqs, tag="c10")
    bad = 0
    maxalloc = 0
    for i, m in enumerate(meta):
        r = out.get(i)
        if r is None or r.get("tool_error"):
            raise c.ToolError("worker: " + str(r))
        maxalloc = max(maxalloc, (r.get("alloc") or {}).get("max", 0))
        what = None
        if r.get("crash"):
            e = str(r.get("err"))
            what = "alloc-abort" if "memory allocation of" in e else ("hang" if r.get("timeout") else "crash")
        elif r.get("panic"):
            what = "panic"
        elif m["expect"] == "err" and r.get("ok"):
            what = "accepted-beyond-limit" if m["fault"] in ("nest", "frame-length") else "length-prefix-beyond-input-accepted"
        elif m["expect"] == "ok" and not r.get("ok"):
            what = "rejected-within-limit"
        if what is None:
            continue
        bad += 1
        rep.violation({"check": what, "site": m["site"], "fault": m["fault"]},
                      {"schema": m["schema"], "message": m["msg"], "fault": [m["fault"], m["detail"]],
                       "input": reqs[i]["input"] if len(reqs[i]["input"]) < 400 else {"len": len(reqs[i]["input"])},
                       "observed": {k: v for k, v in r.items() if k != "alloc"}})
    for tags, cls, rp in finds:
        if "C10" in tags:
            rep.violation(cls, rp)
    rep.cov = {
        "evaluations": len(reqs), "distinct_nontrivial": len(reqs),
        "rule": "one case = (generated message decoder or length-delimited framing, fault on a valid TLC-generated encoding): truncation "
                "points, seeded single-bit flips, every length prefix overwritten with {0,1,rem-1,rem+1,i32::MAX,u32::MAX,i64::MAX,u64::MAX}, "
                "frame prefixes beyond the payload, and nesting 1..300 of embedded / repeated / map-valued messages, unknown groups and "
                "unknown payloads around the documented recursion limit of 100; isolated worker with the proportional allocation limit",
        "samples": [{"meta": meta[len(meta) // 2], "input": reqs[len(meta) // 2]["input"][:40]}],
        "largest_single_allocation_observed": maxalloc, "violations_before_known_filter": bad, **budget, "messages_faulted": len(canon), "exhaustive": False,
    }
    rep.assumptions = ["inputs are spec-derived; the runtime-only codecs (String / Vec<u8> targets, packed encoders, btree maps, groups as fields, wrapper messages) are exercised through the hand-written messages of harness/gencases/src/pbkinds.rs",
                       "recursion budget as built: a message nested more than 100 levels below the top-level message is an error, up to 100 it decodes"]
    return "fault_enumeration"
