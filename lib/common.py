"""Shared plumbing for bin/check: paths, process running, TLC runner, harness build,
evidence, known findings, violation reporting.  Exit codes: 0 held, 1 VIOLATION, 2 tool error."""
import hashlib, json, os, re, shutil, subprocess, sys, time

VERIF = os.path.dirname(os.path.dirname(os.path.abspath(__file__)))
SPEC = os.path.join(VERIF, "spec")
OUT = os.path.join(VERIF, "out")
HARNESS = os.path.join(VERIF, "harness")
REPO = os.environ.get("VERIF_REPO", "/repo")
TLC_JAR_CP = "/opt/veriftools/tla/tla2tools.jar:/opt/veriftools/tla/CommunityModules-deps.jar"


class ToolError(Exception):
    pass


class UnderTestAbort(Exception):
    """A driver process that executes the code under test was killed by it (abort, SIGSEGV, stack overflow, allocation
    failure) at a place where the driver cannot attribute the death to one input: the run did not establish the
    property, and the cause is in the code under test, so this is reported as a violation, not as a tool error."""

    def __init__(self, driver, rc, output):
        super().__init__(f"{driver} died (rc={rc})")
        self.driver, self.rc, self.output = driver, rc, output


ABORT_MARKS = ("non-unwinding panic", "has overflowed its stack", "memory allocation of", "unsafe precondition", "SIGSEGV", "SIGABRT")


def driver_failed(driver, rc, output):
    """Raise the right exception for a driver that exited non-zero."""
    tail = output[-3000:]
    if rc is not None and (rc < 0 or rc in (134, 139, 138)) or any(m in tail for m in ABORT_MARKS):
        raise UnderTestAbort(driver, rc, tail)
    raise ToolError(f"{driver} failed (rc={rc}):\n" + tail)


def log(*a):
    print(*a, file=sys.stderr, flush=True)


def run(cmd, timeout=600, env=None, cwd=None, check=False, stdin=None, driver=None):
    e = dict(os.environ)
    e.update({"CARGO_NET_OFFLINE": "true"})
    if env:
        e.update({k: str(v) for k, v in env.items()})
    t0 = time.time()
    try:
        p = subprocess.run(cmd, cwd=cwd, env=e, stdout=subprocess.PIPE, stderr=subprocess.STDOUT,
                           timeout=timeout, input=stdin)
    except subprocess.TimeoutExpired as ex:
        if driver:
            # a driver that executes the code under test and does not come back: the code under test hangs (data, not a tool error)
            raise UnderTestAbort(driver, "timeout", f"no result within {timeout} s (the driver normally needs a small fraction of that)") from ex
        raise ToolError(f"timeout after {timeout}s: {cmd}") from ex
    out = p.stdout.decode("utf-8", "replace")
    if check and p.returncode != 0:
        raise ToolError(f"command failed ({p.returncode}): {cmd}\n{out[-4000:]}")
    return p.returncode, out, time.time() - t0


# ----------------------------------------------------------------------------- harness
_built = False


def setup_harness():
    """Instantiate Cargo.toml files for VERIF_REPO and copy the repository's lock file."""
    for rel in ("Cargo.toml", "gencases/Cargo.toml", "c14crate/Cargo.toml"):
        src = os.path.join(HARNESS, rel + ".in")
        txt = open(src).read().replace("@REPO@", REPO)
        dst = os.path.join(HARNESS, rel)
        if not os.path.exists(dst) or open(dst).read() != txt:
            open(dst, "w").write(txt)
    lock_src = os.path.join(REPO, "Cargo.lock")
    lock_dst = os.path.join(HARNESS, "Cargo.lock")
    if not os.path.exists(lock_dst):
        shutil.copy(lock_src, lock_dst)
    for crate in ("gencases", "c14crate"):
        gl = os.path.join(HARNESS, crate, "src", "lib.rs")
        if not os.path.exists(gl):
            os.makedirs(os.path.dirname(gl), exist_ok=True)
            open(gl, "w").write("// generated\n" + ("pub mod rt;\npub mod pbrt;\npub fn table() -> Vec<(&'static str, rt::Ops)> { vec![] }\n" if crate == "gencases" else ""))


def build_harness(bins=None):
    """cargo build of the harness against the current working tree of REPO (hooks on)."""
    global _built
    setup_harness()
    cmd = ["cargo", "build", "--offline", "-p", "vh"]
    rc, out, dt = run(cmd, timeout=1800, cwd=HARNESS)
    if rc != 0 and "Cargo.lock" in out and ("needs to be updated" in out or "failed to select a version" in out):
        shutil.copy(os.path.join(REPO, "Cargo.lock"), os.path.join(HARNESS, "Cargo.lock"))
        rc, out, dt = run(cmd, timeout=1800, cwd=HARNESS)
    if rc != 0:
        raise ToolError("harness build failed (does the tree compile with --cfg pilota_verif?)\n" + out[-6000:])
    _built = True
    return dt


def hbin(name):
    return os.path.join(HARNESS, "target", "debug", name)


# ----------------------------------------------------------------------------- TLC
def _deps(module, seen):
    if module in seen:
        return
    f = os.path.join(SPEC, module + ".tla")
    if not os.path.exists(f):
        return
    seen.add(module)
    txt = open(f).read()
    for m in re.finditer(r"^\s*EXTENDS\s+([^\n]+(?:\n\s+[A-Za-z_][^\n]*)*)", txt, re.M):
        for name in re.split(r"[,\s]+", m.group(1).strip()):
            if name:
                _deps(name, seen)
    for m in re.finditer(r"INSTANCE\s+(\w+)", txt):
        _deps(m.group(1), seen)


def spec_hash(module, *extra):
    """Hash of the module, every module it (transitively) EXTENDS/INSTANCEs, and its cfg files."""
    seen = set()
    _deps(module, seen)
    h = hashlib.sha256()
    for name in sorted(seen):
        h.update(name.encode())
        h.update(open(os.path.join(SPEC, name + ".tla"), "rb").read())
    for f in sorted(os.listdir(SPEC)):
        if f.endswith(".cfg") and f.startswith(module):
            h.update(f.encode())
            h.update(open(os.path.join(SPEC, f), "rb").read())
    for x in extra:
        h.update(str(x).encode())
    return h.hexdigest()[:24]


TLC_STATES = re.compile(r"(\d+) states generated, (\d+) distinct states found")


def tlc(module, cfg=None, env=None, workers=1, timeout=900, simulate=None, depth=None, seed=None,
        coverage=False, xmx="4g", deque=False, tag=None, extra=None):
    """Run TLC on spec/<module>.tla.  Returns dict(rc, out, generated, distinct, ok, dt)."""
    tag = tag or module
    meta = os.path.join(OUT, "tlc", f"{tag}-{os.getpid()}")
    os.makedirs(meta, exist_ok=True)
    jopts = "-Xss1g"
    if deque:
        jopts += " -Dtlc2.tool.queue.IStateQueue=StateDeque"
    cmd = ["java", "-XX:+UseParallelGC", f"-Xmx{xmx}", "-Xss1g"]
    if deque:
        cmd.append("-Dtlc2.tool.queue.IStateQueue=StateDeque")
    cmd += ["-cp", TLC_JAR_CP, "tlc2.TLC", "-workers", str(workers), "-metadir", meta, "-cleanup",
            "-noGenerateSpecTE", "-config", cfg or (module + ".cfg")]
    if simulate:
        cmd += ["-simulate", f"num={simulate}"]
    if depth:
        cmd += ["-depth", str(depth)]
    if seed is not None:
        cmd += ["-seed", str(seed)]
    if coverage:
        cmd += ["-coverage", "1"]
    if extra:
        cmd += extra
    cmd.append(module + ".tla")
    try:
        rc, out, dt = run(cmd, timeout=timeout, env=env, cwd=SPEC)
    finally:
        shutil.rmtree(meta, ignore_errors=True)
    m = None
    for m in TLC_STATES.finditer(out):
        pass
    gen, dist = (int(m.group(1)), int(m.group(2))) if m else (0, 0)
    ok = rc == 0 and "Model checking completed. No error has been found." in out or \
        (rc == 0 and simulate is not None)
    return {"rc": rc, "out": out, "generated": gen, "distinct": dist, "ok": ok, "dt": dt}


def tlc_must_pass(res, what):
    if not res["ok"]:
        raise ToolError(f"TLC run '{what}' did not complete cleanly (rc={res['rc']}):\n" + res["out"][-5000:])


def coverage_counts(out):
    """Parse -coverage 1 output: {action/operator name: count} for top-level `<Name line ...>: a:b` lines."""
    c = {}
    for m in re.finditer(r"^<(\w+) line \d+, col \d+ to line \d+, col \d+ of module (\w+)>: (\d+):(\d+)", out, re.M):
        c[m.group(1)] = max(c.get(m.group(1), 0), int(m.group(4)))
    return c


def read_ndjson(path):
    with open(path) as f:
        return [json.loads(l) for l in f if l.strip()]


def write_ndjson(path, rows):
    with open(path, "w") as f:
        for r in rows:
            f.write(json.dumps(r, separators=(",", ":")) + "\n")


def cached_tlc_file(name, module, key_extra, producer_env, timeout=900, workers=1):
    """Run a TLC emitter module once per (spec text, extras); returns the produced file path.
    Sound because the emitters depend only on the specification, never on the repository."""
    key = spec_hash(module, *key_extra)
    d = os.path.join(OUT, "cache")
    os.makedirs(d, exist_ok=True)
    path = os.path.join(d, f"{name}-{key}.ndjson")
    stats = path + ".stats.json"
    if os.path.exists(path) and os.path.exists(stats):
        return path, json.load(open(stats))
    env = dict(producer_env)
    env["VERIF_OUT"] = path + ".tmp"
    res = tlc(module, env=env, timeout=timeout, workers=workers, tag=name)
    tlc_must_pass(res, name)
    os.replace(path + ".tmp", path)
    st = {"generated": res["generated"], "distinct": res["distinct"], "dt": res["dt"]}
    json.dump(st, open(stats, "w"))
    return path, st


# ----------------------------------------------------------------------------- findings / violations
def load_findings():
    p = os.path.join(VERIF, "known_findings.json")
    if not os.path.exists(p):
        return {"findings": [], "fixed": []}
    return json.load(open(p))


class Reporter:
    def __init__(self, prop, tier, seed):
        self.prop, self.tier, self.seed = prop, tier, seed
        self.t0 = time.time()
        self.violations = []      # (classification dict, replay dict)
        self.known_hits = {}
        self.findings = [f for f in load_findings()["findings"] if f["property"] == prop and f.get("status", "known") == "known"]
        self.cov = {"evaluations": 0, "distinct_nontrivial": 0, "samples": [], "rule": ""}
        self.assumptions = []

    def violation(self, cls, replay):
        """cls: classification (call site / shape / fault kind) used for known-finding matching."""
        for f in self.findings:
            if all((cls.get(k) in v) if isinstance(v, list) else (cls.get(k) == v) for k, v in f["match"].items()):
                self.known_hits.setdefault(f["id"], (f, 0))
                self.known_hits[f["id"]] = (f, self.known_hits[f["id"]][1] + 1)
                if os.environ.get("VERIF_DUMP_KNOWN"):
                    with open(os.environ["VERIF_DUMP_KNOWN"], "a") as fh:
                        fh.write(json.dumps({"id": f["id"], "cls": cls}, sort_keys=True) + "\n")
                return
        self.violations.append((cls, replay))

    def finish(self, level):
        os.makedirs(os.path.join(OUT, "replay"), exist_ok=True)
        for fid, (f, n) in sorted(self.known_hits.items()):
            print(f"KNOWN-FINDING: property={self.prop} {fid}: {f.get('note','')} ({n} occurrence(s) this run)")
        seen = set()
        for cls, replay in self.violations:
            key = json.dumps(cls, sort_keys=True)
            if key in seen:
                continue
            seen.add(key)
            if len(seen) > 25:
                break
            h = hashlib.sha256((key + json.dumps(replay, sort_keys=True, default=str)).encode()).hexdigest()[:12]
            path = os.path.join(OUT, "replay", f"{self.prop}-{h}.json")
            json.dump({"property": self.prop, "class": cls, "replay": replay}, open(path, "w"), indent=1, default=str)
            print(f"VIOLATION property={self.prop} replay={path}")
            log("  ", json.dumps(cls)[:400])
        ev = {
            "property_id": self.prop, "tier": self.tier, "seed": self.seed, "level": level,
            "coverage": self.cov, "assumptions": self.assumptions,
            "wall_s": round(time.time() - self.t0, 2), "violations": len(seen),
            "known_findings_hit": sorted(self.known_hits),
        }
        os.makedirs(os.path.join(VERIF, "evidence"), exist_ok=True)
        json.dump(ev, open(os.path.join(VERIF, "evidence", f"{self.prop}.json"), "w"), indent=1, default=str)
        return 1 if seen else 0


def prune_cache(prefix, keep=3):
    """Result caches are keyed on the hash of a worker binary: every change to the code under test leaves one behind that is
    never used again.  Keep the newest `keep` files of a prefix."""
    d = os.path.join(OUT, "cache")
    try:
        fs = sorted((f for f in os.listdir(d) if f.startswith(prefix)), key=lambda f: os.path.getmtime(os.path.join(d, f)), reverse=True)
        for f in fs[keep:]:
            os.remove(os.path.join(d, f))
    except OSError:
        pass


def apalache(module, args, timeout=1500, tag=None, text=None):
    """apalache-mc check on spec/<module>.tla (or on `text`, a variant of it written to a scratch file).
    Returns {"ok": no error found, "violation": an invariant violation was reported, "out": tail of the output, "dt": s}."""
    import shutil, tempfile
    tag = tag or module
    od = os.path.join(OUT, "apalache", f"{tag}-{os.getpid()}")
    os.makedirs(od, exist_ok=True)
    src = os.path.join(SPEC, module + ".tla")
    try:
        if text is not None:
            os.makedirs(od + "-src", exist_ok=True)
            src = os.path.join(od + "-src", module + ".tla")
            open(src, "w").write(text)
        rc, o, dt = run(["apalache-mc", "check", "--out-dir=" + od, "--write-intermediate=false"] + args + [src], timeout=timeout, cwd=SPEC)
        ok = "The outcome is: NoError" in o
        vio = "The outcome is: Error" in o and "invariant" in o and "violated" in o
        if not ok and not vio:
            raise ToolError(f"apalache-mc {module} {args}:\n" + o[-3000:])
        return {"ok": ok, "violation": vio, "out": o[-1500:], "dt": round(dt, 1)}
    finally:
        shutil.rmtree(od, ignore_errors=True)
        shutil.rmtree(od + "-src", ignore_errors=True)
