"""Derive decisions for C14: spec/MCAutoDerive.tla evaluates the as-built AutoDerivePlugin (spec/AutoDerive.tla) on all 28 561
type graphs over three structs, in every order of the top-level calls, proves that its decisions are the ideal ones (and do
not depend on the order), refutes the type graph as it was before fix 0004637 and the predicate as it was before fix 280118d, and writes every graph with its signature and the predicted outcome.  This module picks representatives per
signature and renders them as IDL."""
import json, random
import common as c


def graphs(tier):
    path, st = c.cached_tlc_file("autoderive-" + tier, "MCAutoDerive", [tier], {"VERIF_TIER": tier}, timeout=1800)
    return c.read_ndjson(path), st


def member(i, m):
    t = {"f64": "double", "i32": "i32"}.get(m["to"], m["to"])
    n = f"m{i + 1}"
    if m["via"] == "direct":
        return f"    {i + 1}: {t} {n},"
    if m["via"] == "arc":
        return f'    {i + 1}: optional {t} {n} (pilota.rust_wrapper_arc = "true"),'
    if m["via"] == "bmap":
        return f'    {i + 1}: map<i32, {t}> {n} (pilota.rust_type = "btree"),'
    if m["via"] == "hmap":
        return f"    {i + 1}: map<i32, {t}> {n},"
    raise ValueError(m)


def render(g):
    out = []
    for n in ("A", "B", "C"):
        out.append(f"struct {n} {{\n" + "\n".join(member(i, m) for i, m in enumerate(g[n])) + "\n    9: i32 pad,\n}")
    return "\n".join(out) + "\n"


def select(tier, seed):
    """(graph, predicted_ok, refuted_before_fix, index) representatives, one per signature; quick = every signature the type
    graph before the fix got wrong + a seeded sample of the others."""
    gs, st = graphs(tier)
    by = {}
    for r in gs:
        key = (r["ok"], r["refuted_before_fix"], json.dumps(sorted(json.dumps(x) for x in r["sig"])))
        by.setdefault(key, r)
    keys = sorted(by)
    if True:
        # quick: 20 + 24 signatures; thorough: 240 + 120 (compiling all 1 931 takes hours; every one of them is evaluated by TLC)
        rnd = random.Random(seed + 3)
        pre = [k for k in keys if k[1]]
        okk = [k for k in keys if k[0] and not k[1]]
        bad = [k for k in keys if not k[0]]
        rnd.shuffle(pre); rnd.shuffle(okk); rnd.shuffle(bad)
        a, b = (20, 24) if tier == "quick" else (240, 120)
        keys = sorted(pre[:a] + okk[:b] + bad[:8])
    stats = {"tlc": st, "graphs": len(gs), "signatures": len(by), "signatures_refuted_before_fix": len([k for k in by if k[1]]),
             "predicted_not_to_compile": len([k for k in by if not k[0]])}
    return [(by[k]["g"], by[k]["ok"], by[k]["refuted_before_fix"], i) for i, k in enumerate(keys)], stats
