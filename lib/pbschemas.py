"""protobuf schema corpora (G_proto of DESIGN.md 5) as JSON + rendering as .proto text.
Semantics live in spec/PbSchema.tla."""
import random

SCALARS = ["double", "float", "int32", "int64", "uint32", "uint64", "sint32", "sint64", "fixed32", "fixed64",
           "sfixed32", "sfixed64", "bool", "string", "bytes"]
KEY_SCALARS = ["int32", "int64", "uint32", "uint64", "sint32", "sint64", "fixed32", "fixed64", "sfixed32", "sfixed64", "bool", "string"]
TAGS = [1, 2, 15, 16, 2047, 2048, 268435456, 536870911]


def s(x):
    return {"s": x}


def ty_proto(t):
    if "s" in t:
        return t["s"]
    if "msg" in t:
        return t["msg"]
    if "enum" in t:
        return t["enum"]
    raise ValueError(t)


def render(sch):
    out = [f'syntax = "{sch["syntax"]}";', ""]
    if sch.get("package"):
        out.append(f"package {sch['package']};")
    for e in sch["enums"]:
        out.append(f"enum {e['name']} {{")
        for n, v in e["values"]:
            out.append(f"  {n} = {v};")
        out.append("}")
    for m in sch["messages"]:
        out.append(f"message {m['name']} {{")
        done_oneofs = set()
        for f in m["fields"]:
            if f["oneof"]:
                if f["oneof"] in done_oneofs:
                    continue
                done_oneofs.add(f["oneof"])
                out.append(f"  oneof {f['oneof']} {{")
                for g in m["fields"]:
                    if g["oneof"] == f["oneof"]:
                        out.append(f"    {ty_proto(g['ty'])} {g['name']} = {g['tag']};")
                out.append("  }")
                continue
            if f["label"] == "map":
                out.append(f"  map<{f['ty']['map'][0]}, {ty_proto(f['ty']['map'][1])}> {f['name']} = {f['tag']};")
                continue
            lab = {"singular": "", "optional": "optional ", "required": "required ", "repeated": "repeated "}[f["label"]]
            opt = ""
            if f["label"] == "repeated" and f.get("packed_opt") is not None:
                opt = f" [packed = {'true' if f['packed_opt'] else 'false'}]"
            out.append(f"  {lab}{ty_proto(f['ty'])} {f['name']} = {f['tag']}{opt};")
        out.append("}")
    return "\n".join(out) + "\n"


def field(name, tag, label, ty, oneof="", packed_opt=None, syntax="proto3"):
    k = ty.get("s") or ("enum" if "enum" in ty else "msg")
    numeric = k not in ("string", "bytes", "msg")
    # what a conforming ENCODER does by default for a repeated numeric field
    packed = False
    if label == "repeated" and numeric:
        packed = packed_opt if packed_opt is not None else (syntax == "proto3")
    return {"name": name, "tag": tag, "label": label, "ty": ty, "oneof": oneof, "packed": bool(packed), "packed_opt": packed_opt}


def corpus(n, seed):
    """Every scalar type x {singular, optional, required (proto2), repeated, packed, map key, map value, oneof member};
    enums and messages in the same positions; nested / recursive messages."""
    rnd = random.Random(seed)
    schemas = []
    for si in range(n):
        syntax = "proto3" if si % 3 != 2 else "proto2"
        enums = [{"name": f"En{si}", "values": [["E_ZERO", 0], ["E_ONE", 1], ["E_BIG", 300]]}]
        msgs = []
        leaf = {"name": f"Leaf{si}", "fields": [
            field("a", 1, "singular" if syntax == "proto3" else "optional", s("int32"), syntax=syntax),
            field("b", 2, "singular" if syntax == "proto3" else "optional", s("string"), syntax=syntax),
            field("c", 3, "repeated", s("sint64"), syntax=syntax)]}
        msgs.append(leaf)
        order = SCALARS[:]
        rnd.shuffle(order)
        # (1) all scalars singular / optional
        fs = []
        for i, t in enumerate(order):
            lab = ["singular", "optional"][i % 2] if syntax == "proto3" else ["optional", "required"][i % 2]
            fs.append(field(f"f{i}", TAGS[i % len(TAGS)] + (i // len(TAGS)) * 3 + (100 if i >= len(TAGS) else 0), lab, s(t), syntax=syntax))
        fs.append(field("e", 40, "singular" if syntax == "proto3" else "optional", {"enum": f"En{si}"}, syntax=syntax))
        fs.append(field("m", 41, "singular" if syntax == "proto3" else "optional", {"msg": f"Leaf{si}"}, syntax=syntax))
        msgs.append({"name": f"Sc{si}", "fields": fs})
        # (2) all scalars repeated, packing declared both ways
        fs = []
        for i, t in enumerate(order):
            po = None if i % 3 == 0 else (i % 3 == 1)
            if t in ("string", "bytes"):
                po = None
            fs.append(field(f"r{i}", i + 1, "repeated", s(t), packed_opt=po, syntax=syntax))
        fs.append(field("re", 30, "repeated", {"enum": f"En{si}"}, syntax=syntax))
        fs.append(field("rm", 31, "repeated", {"msg": f"Leaf{si}"}, syntax=syntax))
        msgs.append({"name": f"Rp{si}", "fields": fs})
        # (3) maps: every key scalar, values over scalars / enum / message
        fs = []
        vals = [s(t) for t in order] + [{"enum": f"En{si}"}, {"msg": f"Leaf{si}"}]
        for i, kt in enumerate(KEY_SCALARS):
            fs.append({"name": f"m{i}", "tag": i + 1, "label": "map", "ty": {"map": [kt, vals[(i + si) % len(vals)]]}, "oneof": "", "packed": False, "packed_opt": None})
        fs.append({"name": "mm", "tag": 20, "label": "map", "ty": {"map": ["string", {"msg": f"Leaf{si}"}]}, "oneof": "", "packed": False, "packed_opt": None})
        fs.append({"name": "me", "tag": 21, "label": "map", "ty": {"map": ["int32", {"enum": f"En{si}"}]}, "oneof": "", "packed": False, "packed_opt": None})
        msgs.append({"name": f"Mp{si}", "fields": fs})
        # (4) oneofs (proto3 schemas; pilota's goldens use them in proto3)
        if syntax == "proto3":
            fs = [field("x", 1, "singular", s("int32"))]
            for i, t in enumerate(order[:8]):
                fs.append(field(f"o{i}", 2 + i, "singular", s(t), oneof="pick"))
            fs.append(field("om", 12, "singular", {"msg": f"Leaf{si}"}, oneof="pick"))
            fs.append(field("oe", 13, "singular", {"enum": f"En{si}"}, oneof="pick"))
            fs.append(field("y", 14, "singular", s("string")))
            fs.append(field("p1", 15, "singular", s("sint32"), oneof="other"))
            fs.append(field("p2", 16, "singular", s("bytes"), oneof="other"))
            msgs.append({"name": f"On{si}", "fields": fs})
        # (5) recursion and nesting
        lab = "singular" if syntax == "proto3" else "optional"
        msgs.append({"name": f"Rec{si}", "fields": [
            field("v", 1, lab, s("int32"), syntax=syntax),
            field("next", 2, lab, {"msg": f"Rec{si}"}, syntax=syntax),
            field("kids", 3, "repeated", {"msg": f"Rec{si}"}, syntax=syntax),
            {"name": "named", "tag": 4, "label": "map", "ty": {"map": ["string", {"msg": f"Rec{si}"}]}, "oneof": "", "packed": False, "packed_opt": None}]})
        msgs.append({"name": f"Out{si}", "fields": [
            field("sc", 1, lab, {"msg": f"Sc{si}"}, syntax=syntax),
            field("rp", 2, lab, {"msg": f"Rp{si}"}, syntax=syntax),
            field("mp", 3, lab, {"msg": f"Mp{si}"}, syntax=syntax),
            field("tail", 4, lab, s("bool"), syntax=syntax)]})
        msgs.append({"name": f"Nz{si}", "fields": [
            {"name": "z", "tag": 1, "label": "map", "ty": {"map": ["int32", s("double")]}, "oneof": "", "packed": False, "packed_opt": None},
            {"name": "y", "tag": 2, "label": "map", "ty": {"map": ["string", s("float")]}, "oneof": "", "packed": False, "packed_opt": None}]})
        # payloads of 128 bytes and more (two-byte length prefixes): embedded, repeated and map-valued messages, packed fields
        msgs.append({"name": f"BigLeaf{si}", "fields": [field("s", 1, lab, s("string"), syntax=syntax), field("b", 2, lab, s("bytes"), syntax=syntax),
                                                      field("n", 3, lab, s("int32"), syntax=syntax)]})
        msgs.append({"name": f"Big{si}", "fields": [
            field("items", 1, "repeated", {"msg": f"BigLeaf{si}"}, syntax=syntax),
            field("one", 2, lab, {"msg": f"BigLeaf{si}"}, syntax=syntax),
            {"name": "m", "tag": 3, "label": "map", "ty": {"map": ["string", {"msg": f"BigLeaf{si}"}]}, "oneof": "", "packed": False, "packed_opt": None},
            field("pk", 4, "repeated", s("fixed64"), packed_opt=True, syntax=syntax),
            field("pv", 5, "repeated", s("sint32"), packed_opt=True, syntax=syntax),
            field("long", 16, lab, s("string"), syntax=syntax),
            field("tail", 17, lab, s("bool"), syntax=syntax)]})
        # every varint width 1..10 (value = 2^(7j) - 1 and 2^(7j)) in packed and unpacked position, and as a singular value
        lf = []
        for i, t in enumerate(["uint64", "int64", "sint64", "uint32", "int32", "sint32"]):
            lf.append(field(f"p{i}", 1 + i, "repeated", s(t), packed_opt=True, syntax=syntax))
            lf.append(field(f"u{i}", 2040 + i, "repeated", s(t), packed_opt=False, syntax=syntax))
        lf.append(field("tail", 15, lab, s("bool"), syntax=syntax))
        msgs.append({"name": f"Lad{si}", "fields": lf})
        for m in msgs:
            m["syntax"] = syntax
        schemas.append({"name": f"p{si}", "syntax": syntax, "package": "", "enums": enums, "messages": msgs})
    return schemas


def mapf(name, tag, kt, vty):
    return {"name": name, "tag": tag, "label": "map", "ty": {"map": [kt, vty]}, "oneof": "", "packed": False, "packed_opt": None}


def runtime_kinds():
    """Schema of the hand-written messages in harness/gencases/src/pbkinds.rs: the runtime codecs pilota-build never selects
    (String / Vec<u8> targets, packed encoders, btree maps, groups, well-known wrapper messages)."""
    p3, p2 = "proto3", "proto2"
    msgs = [
        {"name": "KLeaf", "syntax": p3, "fields": [field("a", 1, "singular", s("int32")), field("b", 2, "singular", s("string"))]},
        {"name": "KStr", "syntax": p3, "fields": [
            field("s", 1, "singular", s("string")), field("os", 2, "optional", s("string")), field("rs", 3, "repeated", s("string")),
            field("v", 4, "singular", s("bytes")), field("ov", 5, "optional", s("bytes")), field("rv", 16, "repeated", s("bytes")),
            field("tail", 17, "singular", s("int32"))]},
        {"name": "KPacked", "syntax": p3, "fields": [
            field("a", 1, "repeated", s("int32"), packed_opt=True), field("b", 2, "repeated", s("sint64"), packed_opt=True),
            field("c", 3, "repeated", s("fixed32"), packed_opt=True), field("d", 4, "repeated", s("double"), packed_opt=True),
            field("f", 5, "repeated", s("bool"), packed_opt=True), field("g", 16, "repeated", s("uint64"), packed_opt=True),
            field("h", 17, "repeated", s("sfixed64"), packed_opt=True), field("i", 18, "repeated", s("float"), packed_opt=True),
            field("j", 2048, "repeated", s("sint32"), packed_opt=True), field("tail", 19, "singular", s("int32"))]},
        {"name": "KBtree", "syntax": p3, "fields": [
            mapf("a", 1, "int32", s("sint64")), mapf("b", 2, "string", s("string")), mapf("c", 3, "uint64", {"msg": "KLeaf"}),
            mapf("d", 16, "bool", s("bytes")), mapf("z", 17, "string", s("double")), field("tail", 18, "singular", s("int32"))]},
        {"name": "KGroup", "syntax": p2, "fields": [
            field("g", 1, "optional", {"msg": "KLeaf", "grp": True}, syntax=p2), field("rg", 2, "repeated", {"msg": "KLeaf", "grp": True}, syntax=p2),
            field("tail", 3, "optional", s("int32"), syntax=p2), field("deep", 16, "optional", {"msg": "KGroup", "grp": True}, syntax=p2)]},
        {"name": "StringValue", "syntax": p3, "fields": [field("value", 1, "singular", s("string"))]},
        {"name": "BytesValue", "syntax": p3, "fields": [field("value", 1, "singular", s("bytes"))]},
        {"name": "Int64Value", "syntax": p3, "fields": [field("value", 1, "singular", s("int64"))]},
        {"name": "BoolValue", "syntax": p3, "fields": [field("value", 1, "singular", s("bool"))]},
        {"name": "DoubleValue", "syntax": p3, "fields": [field("value", 1, "singular", s("double"))]},
        {"name": "UInt32Value", "syntax": p3, "fields": [field("value", 1, "singular", s("uint32"))]},
        {"name": "UInt64Value", "syntax": p3, "fields": [field("value", 1, "singular", s("uint64"))]},
        {"name": "Int32Value", "syntax": p3, "fields": [field("value", 1, "singular", s("int32"))]},
        {"name": "FloatValue", "syntax": p3, "fields": [field("value", 1, "singular", s("float"))]},
        {"name": "BytesBValue", "syntax": p3, "fields": [field("value", 1, "singular", s("bytes"))]},
        {"name": "Empty", "syntax": p3, "fields": []},
        {"name": "NzDoubleValue", "syntax": p3, "fields": [field("value", 1, "singular", s("double"))]},
        {"name": "NzFloatValue", "syntax": p3, "fields": [field("value", 1, "singular", s("float"))]},
        {"name": "KWrap", "syntax": p3, "fields": [
            field("sv", 1, "optional", {"msg": "StringValue"}), field("bv", 2, "optional", {"msg": "BytesValue"}),
            field("iv", 3, "optional", {"msg": "Int64Value"}), field("ov", 4, "optional", {"msg": "BoolValue"}),
            field("dv", 5, "optional", {"msg": "DoubleValue"}), field("uv", 16, "optional", {"msg": "UInt32Value"}),
            field("rsv", 17, "repeated", {"msg": "StringValue"}), field("tail", 18, "singular", s("int32"))]},
    ]
    return {"name": "pbk", "syntax": p3, "package": "", "enums": [], "messages": msgs, "runtime": True,
            "rust": {"KLeaf": "@pbk::KLeaf", "KStr": "@pbk::KStr", "KPacked": "@pbk::KPacked", "KBtree": "@pbk::KBtree", "KGroup": "@pbk::KGroup",
                     "KWrap": "@pbk::KWrap", "StringValue": None, "BytesValue": None, "Int64Value": None, "BoolValue": None,
                     "DoubleValue": None, "UInt32Value": None, "UInt64Value": None, "Int32Value": None, "FloatValue": None, "BytesBValue": None, "Empty": None,
                     "NzDoubleValue": None, "NzFloatValue": None}}


def for_tla(sch):
    return {"name": sch["name"], "syntax": sch["syntax"],
            "messages": [{"name": m["name"], "syntax": m["syntax"],
                          "fields": [{"name": f["name"], "tag": f["tag"], "label": f["label"], "ty": f["ty"], "oneof": f["oneof"],
                                      "packed": bool(f["packed"])} for f in m["fields"]]} for m in sch["messages"]],
            "enums": sch["enums"]}


if __name__ == "__main__":
    for sc in corpus(3, 1)[1:3]:
        print(render(sc))
