"""Generated protobuf code: corpus -> pilota-build -> gencases -> worker -> judged by PbSchema (C05, C06, C10, C18)."""
import hashlib, json, os, random, re
import common as c
import gen, pbschemas, gencheck


def corpus_for(tier, seed):
    return pbschemas.corpus(3 if tier == "quick" else 12, seed)


def units_for(tier, seed):
    ss = corpus_for(tier, seed)
    d = os.path.join(c.OUT, "corpus", f"proto-{tier}-{seed}")
    os.makedirs(d, exist_ok=True)
    units = []
    for s in ss:
        p = os.path.join(d, s["name"] + ".proto")
        txt = pbschemas.render(s)
        if not os.path.exists(p) or open(p).read() != txt:
            open(p, "w").write(txt)
        units.append(gen.Unit(s["name"], p, kind="proto", include=d))
    return ss, units


def prepare_all(tier, seed):
    """One gencases build holding BOTH corpora (thrift + protobuf), so that every check shares it."""
    tss = gencheck.corpus_for(tier, seed)
    tunits = gencheck.thrift_units(tier, seed, tss)
    pss, punits = units_for(tier, seed)
    ok, log = gen.build_corpus(tunits + punits, f"all-{tier}-{seed}")
    if not ok:
        raise c.ToolError("gencases does not build:\n" + log[-5000:])
    # the corpora hold no quarantined shape: every unit must build (whether IDL in general builds is C14's statement)
    for u in tunits + punits:
        if not u.ok:
            raise c.ToolError(f"corpus unit {u.uid} ({u.idl_path}) did not build [{u.status}]; the generated-code checks cannot run:\n{u.output[-1500:]}")
    # the runtime-only kinds: hand-written messages compiled into the worker (harness/gencases/src/pbkinds.rs)
    rk = pbschemas.runtime_kinds()
    ru = gen.Unit(rk["name"], None, kind="static")
    ru.ok = True
    ru.registry = [{"path": "@pbk::" + m["name"], "trait": "prost", "has_default": True} for m in rk["messages"]]
    return tss, tunits, pss + [rk], punits + [ru]


def cases_for(tier, seed, ss):
    sp = os.path.join(c.OUT, "cache", f"pbschemas-{tier}-{seed}.ndjson")
    os.makedirs(os.path.dirname(sp), exist_ok=True)
    c.write_ndjson(sp, [pbschemas.for_tla(s) for s in ss])
    h = hashlib.sha256(open(sp, "rb").read()).hexdigest()[:16]
    path, st = c.cached_tlc_file(f"pbcases-{tier}", "MCPb", [tier, h], {"VERIF_TIER": tier, "VERIF_SCHEMAS": sp}, timeout=3600)
    return path, st, sp


def judge(jobs, sp):
    if not jobs:
        return set(), 0
    seen, uniq, alias = {}, [], {}
    for j in jobs:
        k = hashlib.sha256(json.dumps([j["sid"], j["ty"], j["ref"], j["out"]]).encode()).hexdigest()
        if k not in seen:
            seen[k] = len(uniq)
            uniq.append({"id": len(uniq), "sid": j["sid"], "ty": j["ty"], "ref": j["ref"], "out": j["out"]})
        alias.setdefault(seen[k], []).append(j["id"])
    key = hashlib.sha256((json.dumps(uniq, sort_keys=True) + open(sp).read() + c.spec_hash("PbJudge", "pbjudge")).encode()).hexdigest()[:24]
    cp = os.path.join(c.OUT, "cache", f"pbjudge-{key}.json")
    if os.path.exists(cp):
        badu = set(json.load(open(cp)))
        bad = set()
        for u in badu:
            bad.update(alias[u])
        return bad, len(uniq)
    bad = set()
    badu = []
    for a in range(0, len(uniq), 3000):
        p = os.path.join(c.OUT, f"pbjudge-{os.getpid()}.ndjson")
        op = os.path.join(c.OUT, f"pbjudge-out-{os.getpid()}.ndjson")
        c.write_ndjson(p, uniq[a:a + 3000])
        if os.path.exists(op):
            os.remove(op)
        res = c.tlc("PbJudge", env={"VERIF_TRACE": p, "VERIF_OUT": op, "VERIF_SCHEMAS": sp}, timeout=3600, xmx="6g", tag="pbjudge")
        os.remove(p)
        c.tlc_must_pass(res, "PbJudge")
        for row in c.read_ndjson(op):
            bad.update(alias[row["id"]])
            badu.append(row["id"])
        os.remove(op)
    json.dump(badu, open(cp, "w"))
    return bad, len(uniq)


SIGNED = {"int32": 32, "sint32": 32, "sfixed32": 32, "enum": 32, "int64": 64, "sint64": 64, "sfixed64": 64}
UNSIGNED = {"uint32": 32, "fixed32": 32, "uint64": 64, "fixed64": 64}


def number_of(leaf):
    k, v = leaf["k"], leaf["v"]
    if k == "bool":
        return "true" if v[0] else "false"
    if k in SIGNED or k in UNSIGNED:
        n = sum(l << (16 * i) for i, l in enumerate(v))
        w = SIGNED.get(k) or UNSIGNED[k]
        if k in SIGNED and n >= 1 << (w - 1):
            n -= 1 << w
        return str(n)
    return None


def held_values_mismatch(pss, cs, dbg):
    """The numbers a decoded message HOLDS (its Debug rendering) against the value TLC generated: catches a codec that is
    self-consistent on the wire but wrong for the declared type (e.g. sint64 treated as int64)."""
    sch = [s for s in pss if s["name"] == cs["sid"]][0]
    msg = [m for m in sch["messages"] if m["name"] == cs["ty"]][0]
    by_tag = {f["tag"]: f for f in msg["fields"]}
    bad = []
    for fv in cs["val"]:
        f = by_tag[fv["tag"]]
        if f["oneof"] or f["label"] == "map" or "enum" in f["ty"]:
            continue
        x = fv["x"]
        name = f["name"]
        if x["k"] == "rep":
            nums = [number_of(e) for e in x["es"] if e["k"] != "msg"]
            if not nums or any(n is None for n in nums):
                continue
            want = f"{name}: [" + ", ".join(nums) + "]"
        else:
            if x["k"] == "msg":
                continue
            n = number_of(x)
            if n is None:
                continue
            want = f"{name}: Some({n})" if f["label"] == "optional" else f"{name}: {n}"
        if want not in dbg:
            bad.append((name, f["ty"].get("s", "?"), want))
    return bad


_ANALYSE = {}


def analyse(tier, seed):
    if (tier, seed) not in _ANALYSE:
        _ANALYSE[(tier, seed)] = _analyse(tier, seed)
    return _ANALYSE[(tier, seed)]


def _analyse(tier, seed):
    tss, tunits, pss, punits = prepare_all(tier, seed)
    for u in punits:
        if not u.ok:
            raise c.ToolError(f"protobuf corpus unit {u.uid} did not build ({u.status}):\n{u.output[-2000:]}")
    cpath, cst, sp = cases_for(tier, seed, pss)
    cases = c.read_ndjson(cpath)
    if True:
        reqs = []
        for ci, cs in enumerate(cases):
            path = gen.find_type(punits, cs["sid"], cs["ty"])
            if path is None:
                raise c.ToolError(f"no generated type for {cs['sid']}.{cs['ty']}")
            reqs.append({"id": len(reqs), "ty": path, "op": "roundtrip", "input": cs["in"], "_k": f"{ci}|decode",
                         "want_debug": cs["kind"] == "canon"})
            if cs["kind"] == "merge" and cs["a"]:
                reqs.append({"id": len(reqs), "ty": path, "op": "merge", "a": cs["a"], "b": cs["b"], "_k": f"{ci}|merge"})
            if cs["kind"] == "canon":
                n = len(cs["in"])
                pre = []
                while True:
                    pre.append((n & 0x7f) | (0x80 if n > 0x7f else 0))
                    n >>= 7
                    if not n:
                        break
                reqs.append({"id": len(reqs), "ty": path, "op": "ld", "input": pre + cs["in"], "_k": f"{ci}|ld"})
    def responses(feat):
        # responses are a function of (worker binary built from the working tree, requests): cached on exactly that
        key = gencheck.file_hash(gen.gworker(feat)) + "-" + hashlib.sha256(json.dumps(reqs).encode()).hexdigest()[:20]
        rp = os.path.join(c.OUT, "cache", f"pbresults-{tier}-{'on-' if feat else ''}{key}.json")
        if os.path.exists(rp):
            res = json.load(open(rp))
        else:
            out = gen.run_worker(reqs, tag="pb", feat=feat)
            res = {r["_k"]: out.get(r["id"], {"ok": False, "err": "harness: no response", "tool_error": True}) for r in reqs}
            json.dump(res, open(rp, "w"))
            c.prune_cache(f"pbresults-{tier}-", keep=6)
        return res

    gen.build_feature_worker()
    finds, jobs, meta = [], [], {}
    nexec = 0
    for feat in (False, True):
        res = responses(feat)
        nexec += len(res)
        for k, r in res.items():
            ci, op = k.split("|")
            cs = cases[int(ci)]
            if r.get("tool_error"):
                raise c.ToolError("worker: " + r.get("err", ""))
            tags = {"canon": {"C05"}, "alt": {"C06"}, "merge": {"C18"}, "unknown": {"C18"}}[cs["kind"]]
            if op == "ld":
                tags = {"C05"}
            cls = {"kind": cs["kind"], "how": re.sub(r"\d+$", "", cs["how"]), "op": op, "msg": re.sub(r"\d+$", "", cs["ty"])}
            if feat:
                cls["feature"] = "pb-encode-default-value"
            replay = {"schema": cs["sid"], "message": cs["ty"], "case": cs["kind"] + "/" + cs["how"], "op": op, "input": cs["in"], "a": cs["a"], "b": cs["b"],
                      "reference_encoding_of_expected_value": cs["ref"], "observed": {kk: vv for kk, vv in r.items() if kk != "alloc"}, "pilota_features": ["pb-encode-default-value"] if feat else []}
            if r.get("crash") or r.get("panic"):
                finds.append((tags | {"C10"}, dict(cls, check="crash" if r.get("crash") else "panic"), replay))
                continue
            if not r.get("ok"):
                finds.append((tags, dict(cls, check="rejects-valid"), replay))
                continue
            if r["size"] != len(r["out"]):
                finds.append(({"C05"}, dict(cls, check="encoded_len"), replay))
            if not r.get("redecode_eq", True):
                finds.append((tags | {"C05"}, dict(cls, check="redecode"), replay))
            if not r.get("ld_ok", True):
                finds.append(({"C05"}, dict(cls, check="length-delimited"), replay))
            bare = cs["sid"] == "pbk" and (cs["ty"].endswith("Value") or cs["ty"] == "Empty")      # wrapper messages are bare Rust scalars: no field names in Debug
            if cs["kind"] == "canon" and op == "decode" and r.get("dbg") and not bare:
                bad_fields = held_values_mismatch(pss, cs, r["dbg"])
                for fname, fk, want in bad_fields:
                    finds.append(({"C06", "C05"}, dict(cls, check="held-value", scalar=fk), dict(replay, field=fname, expected_number=want, debug=r["dbg"][:600])))
            jid = len(jobs)
            jobs.append({"id": jid, "sid": cs["sid"], "ty": cs["ty"], "ref": cs["ref"], "out": r["out"]})
            # the bytes pilota produced are themselves judged by the reference decoder: C06 (pilota -> reference)
            meta[jid] = (tags | ({"C06"} if cs["kind"] == "canon" else set()), dict(cls, check="value"), replay)
    bad, njudged = judge(jobs, sp)
    for jid in sorted(bad):
        finds.append(meta[jid])
    cov = {"cases": len(cases), "executions": nexec, "configurations": ["default features", "pb-encode-default-value"], "judged_by_tlc": njudged, "schemas": len(pss),
           "messages": sum(len(s["messages"]) for s in pss), "tlc_case_generation": cst}
    return finds, cov, cases, pss, punits, sp


def run_property(rep, prop, tier, seed, level):
    c.build_harness()
    finds, cov, cases, pss, punits, sp = analyse(tier, seed)
    n = 0
    for tags, cls, replay in finds:
        if prop in tags:
            n += 1
            rep.violation(cls, replay)
    mine = [cs for cs in cases if {"C05": cs["kind"] == "canon", "C06": cs["kind"] in ("alt", "canon"), "C18": cs["kind"] in ("merge", "unknown")}.get(prop, True)]
    sample = {k: mine[len(mine) // 3][k] for k in ("sid", "ty", "kind", "how", "in")}
    rep.cov = {
        "evaluations": cov["executions"], "distinct_nontrivial": len(mine),
        "rule": "one case = (schema, message type, value / alternative encoding / pair to merge / unknown-field insertion) evaluated by TLC "
                "from spec/PbSchema.tla; executed on the emitted messages (decode, encode, encoded_len, merge, length-delimited); outputs "
                "decoded by the reference decoder under the schema and compared by TLC (PbJudge)",
        "samples": [sample], "programs": cov["schemas"], "messages": cov["messages"], "outputs_judged_by_tlc": cov["judged_by_tlc"],
        "findings_of_this_property_before_known_filter": n, "exhaustive": False,
    }
    if level == "model_checking":
        rep.cov["states"] = max(1, cov["judged_by_tlc"])
        rep.cov["transitions"] = max(1, cov["executions"])
        rep.cov["traces_validated_against_impl"] = cov["judged_by_tlc"]
    return level


def budget_check(rep, tier, seed, nested):
    """The decoder's recursion-budget events (hook verif_budget) against the as-built model spec/PbBudget.tla, judged by TLC:
    on the canonical / unknown-field cases of every message and on the nesting probes `nested` = [(sid, ty, bytes, label)]."""
    finds, cov, cases, pss, punits, sp = analyse(tier, seed)
    import random
    jobs = [(cs["sid"], cs["ty"], cs["in"], cs["kind"] + "/" + cs["how"]) for cs in cases if cs["kind"] == "canon" and len(cs["in"]) <= 600]
    unk = [(cs["sid"], cs["ty"], cs["in"], cs["kind"] + "/" + cs["how"]) for cs in cases if cs["kind"] == "unknown" and len(cs["in"]) <= 600]
    random.Random(seed + 5).shuffle(unk)
    jobs += unk[: (150 if tier == "quick" else 5000)]
    jobs += nested
    reqs = []
    for sid, ty, data, label in jobs:
        path = gen.find_type(punits, sid, ty)
        if path is None:
            raise c.ToolError(f"no type for {sid}.{ty}")
        reqs.append({"id": len(reqs), "ty": path, "op": "budget", "input": data})
    out = gen.run_worker(reqs, tag="pbbudget")
    recs = []
    for i, (sid, ty, data, label) in enumerate(jobs):
        r = out.get(i)
        if r is None or r.get("tool_error"):
            raise c.ToolError("worker: " + str(r))
        if r.get("crash") or r.get("panic"):
            rep.violation({"check": "budget-panic", "site": label.split(":")[0]}, {"schema": sid, "message": ty, "case": label, "input": data[:300], "observed": {k: v for k, v in r.items() if k != "alloc"}})
            continue
        recs.append({"id": i, "sid": sid, "ty": ty, "in": data, "ev": r["ev"], "ok": 1 if r["decoded"] else 0})
    bad = set()
    for a in range(0, len(recs), 2000):
        p = os.path.join(c.OUT, f"pbbudget-{os.getpid()}.ndjson")
        op = os.path.join(c.OUT, f"pbbudget-out-{os.getpid()}.ndjson")
        c.write_ndjson(p, recs[a:a + 2000])
        if os.path.exists(op):
            os.remove(op)
        res = c.tlc("PbBudgetJudge", env={"VERIF_TRACE": p, "VERIF_OUT": op, "VERIF_SCHEMAS": sp}, timeout=3600, xmx="6g", tag="pbbudget")
        os.remove(p)
        c.tlc_must_pass(res, "PbBudgetJudge")
        bad.update(row["id"] for row in c.read_ndjson(op))
        os.remove(op)
    for i in sorted(bad):
        sid, ty, data, label = jobs[i]
        r = out[i]
        rep.violation({"check": "budget-events", "site": label.split("/")[0].split(":")[0]},
                      {"schema": sid, "message": ty, "case": label, "input": data[:400] if len(data) > 400 else data,
                       "decoder_events": r["ev"][:60], "decoded": r["decoded"], "err": r.get("err")})
    nev = sum(len(out[i]["ev"]) for i in range(len(jobs)) if out.get(i) and "ev" in out[i])
    return {"recursion_budget_traces": {"decodes_judged": len(recs), "budget_events_judged": nev, "rejected": len(bad),
                                        "model": "spec/PbBudget.tla: exact sequence of (check | enter, count) events per call site"}}
