"""Generated Thrift code: corpus -> pilota-build -> gencases -> worker -> judged by the specification.
Shared by C02, C08, C13, C20 and the generated parts of C04, C09, C11, C12, C19."""
import hashlib, json, os, re, shutil, time
import common as c
import gen, schemas

PROTOS = ["bin", "binle", "compact", "unsafe"]
TRAILER = [0x5a, 0x11, 0x22]


def corpus_for(tier, seed):
    n = 6 if tier == "quick" else 36
    return schemas.corpus(n, seed) + [schemas.defaults_schema(), schemas.struct_literal_schema()]


def thrift_units(tier, seed, ss):
    d = os.path.join(c.OUT, "corpus", f"thrift-{tier}-{seed}")
    os.makedirs(d, exist_ok=True)
    units = []
    for s in ss:
        p = os.path.join(d, s["name"] + ".thrift")
        txt = schemas.render(s)
        if not os.path.exists(p) or open(p).read() != txt:
            open(p, "w").write(txt)
        units.append(gen.Unit(s["name"], p))
        if not s.get("no_keep"):
            units.append(gen.Unit(s["name"] + "k", p, keep=True))
    return units


def prepare(tier, seed):
    """Render IDL, run the builder (plain and keep_unknown_fields; the protobuf corpus rides along so
    that all checks share one gencases build).  Always from the working tree; cargo only recompiles what changed."""
    import pbcheck
    tss, tunits, pss, punits = pbcheck.prepare_all(tier, seed)
    return tss, tunits


def cases_for(tier, seed, ss):
    sp = os.path.join(c.OUT, "cache", f"schemas-{tier}-{seed}.ndjson")
    os.makedirs(os.path.dirname(sp), exist_ok=True)
    c.write_ndjson(sp, [schemas.for_tla(s) for s in ss])
    h = hashlib.sha256(open(sp, "rb").read()).hexdigest()[:16]
    path, st = c.cached_tlc_file(f"gencases-{tier}", "MCGen", [tier, h], {"VERIF_TIER": tier, "VERIF_SCHEMAS": sp}, timeout=3600)
    return path, st


def file_hash(p):
    h = hashlib.sha256()
    with open(p, "rb") as f:
        for chunk in iter(lambda: f.read(1 << 20), b""):
            h.update(chunk)
    return h.hexdigest()[:20]


def trailer_of(ci, suffix, cs):
    """Bytes placed behind the value: none for the argument-type shortcut's Args structs under retention (designed for the end
    of the buffer) and for every third case (a value may also be the LAST thing on its buffer), else three sentinel bytes."""
    if (suffix == "k" and cs["isarg"]) or ci % 3 == 0:
        return []
    return TRAILER


def results(tier, seed):
    """(cases, responses): responses[(case index, unit suffix '', 'k', proto, mode)] -> worker response."""
    ss, units = prepare(tier, seed)
    failed = [u for u in units if not u.ok]
    cpath, cst = cases_for(tier, seed, ss)
    cases = c.read_ndjson(cpath)
    reqs, index = [], []
    rid = 0
    async_modes = ["pending"] if tier == "quick" else ["whole", "bytewise", "pending", "rnd:7", "rnd:99"]
    for ci, cs in enumerate(cases):
        for suffix in ("", "k"):
            uid = cs["sid"] + suffix
            path = gen.find_type(units, uid, cs["ty"])
            if path is None:
                continue
            trailer = trailer_of(ci, suffix, cs)
            for proto in PROTOS:
                enc = cs["bin"] if proto in ("bin", "unsafe") else cs["binle"] if proto == "binle" else cs["cs"]
                reqs.append({"id": rid, "ty": path, "proto": proto, "mode": "sync", "op": "roundtrip", "input": enc + trailer})
                index.append((ci, suffix, proto, "sync"))
                rid += 1
                if proto != "unsafe":
                    for am in async_modes:
                        reqs.append({"id": rid, "ty": path, "proto": proto, "mode": "async", "sched": am, "op": "roundtrip", "input": enc + trailer})
                        index.append((ci, suffix, proto, "async:" + am))
                        rid += 1
            if cs["kind"] == "dflt":
                for proto in ("bin", "compact"):
                    reqs.append({"id": rid, "ty": path, "proto": proto, "op": "default"})
                    index.append((ci, suffix, proto, "default"))
                    rid += 1
    # responses are a function of (worker binary built from the working tree, requests): cached on exactly that
    key = file_hash(gen.gworker()) + "-" + hashlib.sha256(json.dumps(reqs).encode()).hexdigest()[:20]
    rp = os.path.join(c.OUT, "cache", f"genresults-{tier}-{key}.json")
    if os.path.exists(rp):
        return cases, json.load(open(rp)), units, cst
    res = gen.run_worker(reqs, tag="gen")
    out = {}
    for i, k in enumerate(index):
        r = res.get(i)
        if r is None:
            r = {"ok": False, "err": "harness: no response", "tool_error": True}
        out["|".join(map(str, k))] = r
    json.dump(out, open(rp, "w"))
    c.prune_cache(f"genresults-{tier}-", keep=3)
    return cases, out, units, cst


def judge(jobs, tier):
    """jobs: list of dict(id, proto, exp, out, u).  Returns set of failing ids (TLC GenJudge)."""
    if not jobs:
        return set(), 0
    # identical (proto family, out, exp, u) jobs are judged once
    seen, uniq, alias = {}, [], {}
    for j in jobs:
        fam = "compact" if j["proto"] == "compact" else "binle" if j["proto"] == "binle" else "bin"
        k = hashlib.sha256(json.dumps([fam, j["out"], j["exp"], j["u"]], sort_keys=True).encode()).hexdigest()
        if k not in seen:
            seen[k] = len(uniq)
            uniq.append({"id": len(uniq), "proto": fam, "exp": j["exp"], "out": j["out"], "u": j["u"]})
        alias.setdefault(seen[k], []).append(j["id"])
    # the verdict is a function of (outputs, expectations, specification): cached on exactly that
    key = hashlib.sha256((json.dumps(uniq, sort_keys=True) + c.spec_hash("GenJudge", "genjudge")).encode()).hexdigest()[:24]
    cp = os.path.join(c.OUT, "cache", f"genjudge-{key}.json")
    if os.path.exists(cp):
        bad = set()
        for u in json.load(open(cp)):
            bad.update(alias[u])
        return bad, len(uniq)
    bad = set()
    badu = []
    CH = 4000
    for a in range(0, len(uniq), CH):
        chunk = uniq[a:a + CH]
        p = os.path.join(c.OUT, f"judge-{os.getpid()}.ndjson")
        c.write_ndjson(p, chunk)
        op = os.path.join(c.OUT, f"judge-out-{os.getpid()}.ndjson")
        if os.path.exists(op):
            os.remove(op)
        res = c.tlc("GenJudge", env={"VERIF_TRACE": p, "VERIF_OUT": op}, timeout=3600, xmx="6g", tag="judge")
        os.remove(p)
        c.tlc_must_pass(res, "GenJudge")
        if not os.path.exists(op):
            raise c.ToolError("GenJudge wrote no verdict:\n" + res["out"][-3000:])
        for row in c.read_ndjson(op):
            bad.update(alias[row["id"]])
            badu.append(row["id"])
        os.remove(op)
    json.dump(badu, open(cp, "w"))
    return bad, len(uniq)


def how_class(h):
    return re.sub(r"\d+$", "", h)


def argtype_touches(ss):
    """Per schema: the definitions that hold (transitively, by value or in containers) a type with the argument-type shortcut."""
    argtypes = {s["name"]: set(s.get("argtypes", [])) for s in ss}
    touches = {}
    for s in ss:
        refs = {}
        for d in s["defs"]:
            r = set()

            def walk(t):
                if isinstance(t, dict):
                    if "ref" in t:
                        r.add(t["ref"])
                    for k in ("list", "set"):
                        if k in t:
                            walk(t[k])
                    if "map" in t:
                        walk(t["map"][0]); walk(t["map"][1])
            for f in d.get("fields", []):
                walk(f["ty"])
            if d["d"] == "typedef":
                walk(d["ty"])
            refs[d["name"]] = r
        tset = set(argtypes[s["name"]])
        changed = True
        while changed:
            changed = False
            for n, r in refs.items():
                if n not in tset and r & tset:
                    tset.add(n); changed = True
        touches[s["name"]] = tset
    return touches


def analyse(tier, seed):
    """Run everything once and return the list of findings
    [(tags:set of property ids, classification dict, replay dict)] plus coverage numbers."""
    cases, res, units, cst = results(tier, seed)
    ss = corpus_for(tier, seed)
    argtypes = {s["name"]: set(s.get("argtypes", [])) for s in ss}
    defkind = {s["name"]: {d["name"]: d for d in s["defs"]} for s in ss}
    touches = argtype_touches(ss)
    finds = []
    jobs = []
    jobmeta = {}
    n_eval = 0

    def cls_base(cs, suf, proto, mode):
        d = defkind[cs["sid"]][cs["ty"]]
        return {"unit": "keep" if suf == "k" else "plain", "proto": proto, "err": "-", "mode": mode.split(":")[0], "kind": cs["kind"],
                "how": how_class(cs["how"]), "def": "union" if cs["isunion"] else ("args" if cs["isarg"] else d["d"]),
                "argtype": cs["ty"] in touches[cs["sid"]],
                # the one situation the argument-type shortcut is designed for (see lib/schemas.py, method md): the Args struct
                # of a method with a single struct argument, decoded at the end of the buffer, as written by a conforming writer
                # (... and whose request struct holds no OTHER argument type by value: Leaf1 is one in the schemas where a method
                # takes it directly, and then its own decoder swallows its stop byte -- the known defect, nested)
                "designed": bool(cs["isarg"] and cs["kind"] == "base" and len(d["fields"]) == 1 and d["name"].endswith(("ArgsSend", "ArgsRecv"))
                                 and "Md" in d["name"] and "Leaf1" not in argtypes[cs["sid"]]),
                "synth": bool(d.get("synth")), "q": d.get("q", "-")}

    def tags_for(c0, check):
        t = set()
        if check in ("panic", "crash"):
            t.add("C09")
        if check == "size":
            t.add("C04")
        if c0["kind"] == "base":
            t.add("C02")
        if c0["kind"] == "evo" and c0["unit"] == "plain":
            t.add("C08")
        if c0["unit"] == "keep" and c0["proto"] in ("bin", "unsafe") and c0["mode"] == "sync" and c0["kind"] in ("base", "evo"):
            t.add("C13")
        if c0["kind"] == "dflt":
            t.add("C20")
        if c0["proto"] == "unsafe":
            t.add("C11")
        if c0["mode"] == "async" and c0["unit"] == "plain":
            t.add("C12")
        return t

    for k, r in res.items():
        ci, suf, proto, mode = k.split("|")
        cs = cases[int(ci)]
        n_eval += 1
        c0 = cls_base(cs, suf, proto, mode)
        exp_ok = bool(cs["okk"] if suf == "k" else cs["ok"])
        exp = cs["expk"] if suf == "k" else cs["exp"]
        # with retention the emitted ASYNC decoder drops unknown fields by design: its expectation is the keep-off one
        if suf == "k" and mode.startswith("async"):
            exp_ok, exp = bool(cs["ok"]), cs["exp"]
        enc = cs["bin"] if proto in ("bin", "unsafe") else cs["binle"] if proto == "binle" else cs["cs"]
        replay = {"schema": cs["sid"], "type": cs["ty"], "case": cs["kind"] + "/" + cs["how"], "unit": c0["unit"], "proto": proto,
                  "mode": mode, "input": enc, "wire_tree": cs["w"], "expected_ok": exp_ok, "expected": exp if exp_ok else None,
                  "observed": {kk: vv for kk, vv in r.items() if kk not in ("alloc",)}}
        if r.get("tool_error"):
            raise c.ToolError("worker: " + r.get("err", ""))
        if mode == "default":
            if not r.get("ok"):
                finds.append((tags_for(c0, "panic" if r.get("panic") else "outcome") | {"C20"}, dict(c0, check="default-encode-failed"), replay))
            else:
                jid = len(jobs)
                jobs.append({"id": jid, "proto": proto, "exp": cs["exp"], "out": r["out"], "u": 0})
                jobmeta[jid] = ({"C20"}, dict(c0, check="default-value"), dict(replay, expected=cs["exp"]))
                if r["size"] != len(r["out"]):
                    finds.append(({"C04", "C20"}, dict(c0, check="size"), replay))
            continue
        if r.get("crash"):
            finds.append((tags_for(c0, "crash"), dict(c0, check="crash"), replay))
            continue
        if r.get("panic"):
            finds.append((tags_for(c0, "panic"), dict(c0, check="panic", msg=re.sub(r"\d+", "N", r.get("err", ""))[:60]), replay))
            continue
        if bool(r.get("ok")) != exp_ok:
            ec = "multiple-union-fields" if "received multiple fields for union" in str(r.get("err")) else "-"
            finds.append((tags_for(c0, "outcome"), dict(c0, check="accepts-invalid" if r.get("ok") else "rejects-valid", err=ec), replay))
            continue
        if not exp_ok:
            continue
        if r["size"] != len(r["out"]):
            finds.append((tags_for(c0, "size"), dict(c0, check="size"), replay))
        if not r.get("redecode_eq", True):
            finds.append((tags_for(c0, "redecode"), dict(c0, check="redecode"), replay))
        if not r.get("guard_ok", True):
            finds.append(({"C11"}, dict(c0, check="guard"), replay))
        tr = 0 if (suf == "k" and cs["isarg"]) else len(TRAILER)
        if r.get("used") is not None and r["used"] != len(enc):
            finds.append((tags_for(c0, "used"), dict(c0, check="consumed"), dict(replay, used=r["used"], encoded=len(enc))))
        jid = len(jobs)
        jobs.append({"id": jid, "proto": proto if proto != "unsafe" else "bin", "exp": exp, "out": r["out"], "u": 1 if suf == "k" else 0})
        jobmeta[jid] = (tags_for(c0, "value"), dict(c0, check="value"), replay)
    bad, njudged = judge(jobs, tier)
    for jid in sorted(bad):
        finds.append(jobmeta[jid])
    cov = {"cases": len(cases), "executions": n_eval, "judged_by_tlc": njudged, "schemas": len(ss),
           "types": sum(len(u.registry) for u in units if u.ok), "tlc_case_generation": cst}
    return finds, cov, cases


def run_property(rep, prop, tier, seed, level, extra_cov=None):
    """Common driver for the properties decided on the generated Thrift code corpus."""
    c.build_harness()
    finds, cov, cases = analyse(tier, seed)
    mine = 0
    for tags, cls, replay in finds:
        if prop in tags:
            mine += 1
            rep.violation(cls, replay)
    sample = {k: cases[len(cases) // 3][k] for k in ("sid", "ty", "kind", "how", "bin", "ok")}
    rep.cov = {
        "evaluations": cov["executions"], "distinct_nontrivial": cov["cases"],
        "rule": "one case = (schema, type, value or evolved value) evaluated by TLC from spec/ThriftSchema.tla with its encodings and "
                "the tolerant reader's expected result; executed on the emitted code for every protocol (binary, LE, compact, "
                "unchecked), sync and async, with and without keep_unknown_fields; outputs decoded and judged by TLC (GenJudge)",
        "samples": [sample], "programs": cov["schemas"], "generated_types": cov["types"],
        "outputs_judged_by_tlc": cov["judged_by_tlc"], "findings_of_this_property_before_known_filter": mine,
        "exhaustive": False,
    }
    if level == "model_checking":
        rep.cov["states"] = max(1, cov["judged_by_tlc"])
        rep.cov["transitions"] = max(1, cov["executions"])
        rep.cov["traces_validated_against_impl"] = cov["judged_by_tlc"]
    if extra_cov:
        rep.cov.update(extra_cov)
    return level


def add_tagged(rep, prop, tier, seed):
    """Add the findings of the generated-code corpus that concern `prop` to an existing check."""
    finds, cov, cases = analyse(tier, seed)
    n = 0
    for tags, cls, replay in finds:
        if prop in tags:
            n += 1
            rep.violation(cls, replay)
    return {"generated_code_corpus": cov, "generated_findings_before_known_filter": n}


def encode_traces(rep, prop, tier, seed):
    """Call-log validation of EMITTED code: size() and encode() of generated types run on a TracedW around the real protocol
    object; every call (bytes appended, length returned, compact private state through the hook) must be explained by
    spec/ThriftTrace.tla.  Rejections at a w_* event belong to C02, at an l_* event to C04."""
    import random
    import thrift_rt as rt
    cases, res, units, cst = results(tier, seed)
    base = [(ci, cs) for ci, cs in enumerate(cases) if cs["kind"] == "base" and cs["ok"]]
    rnd = random.Random(seed + 77)
    rnd.shuffle(base)
    take = base[: (150 if tier == "quick" else 3000)]
    reqs, meta = [], []
    for ci, cs in take:
        for suffix in ("", "k"):
            path = gen.find_type(units, cs["sid"] + suffix, cs["ty"])
            if path is None:
                continue
            reqs.append({"id": len(reqs), "ty": path, "proto": "bin", "mode": "sync", "op": "trace_encode", "input": cs["bin"]})
            meta.append({"schema": cs["sid"] + suffix, "type": cs["ty"], "how": cs["how"], "unit": "keep" if suffix else "plain"})
    out = gen.run_worker(reqs, tag="gtrace")
    tp = os.path.join(c.OUT, f"gentrace-{os.getpid()}.ndjson")
    runs = 0
    unmodelled = {}
    with open(tp, "w") as f:
        for i, m in enumerate(meta):
            r = out.get(i)
            if r is None or r.get("tool_error"):
                raise c.ToolError("worker: " + str(r))
            if not r.get("ok"):
                continue     # a decode problem: the round-trip checks report it
            for proto, t in r["traces"].items():
                for u in t["unmodelled"]:
                    unmodelled[u] = unmodelled.get(u, 0) + 1
                if t.get("guard_ok") is False and prop in ("C11", "C02"):
                    rep.violation({"check": "gen-trace-guard", "proto": proto, "unit": m["unit"]}, {"generated_type": m, "note": "bytes behind the exact-size buffer were modified"})
                runs += 1
                f.write(json.dumps({"op": "reset", "run": runs, "dir": "w", "p": proto, "buf": "bytesmut", "err": t["err"], "gen": m}) + "\n")
                for ev in t["events"]:
                    f.write(json.dumps(ev) + "\n")
                if not t["err"]:
                    f.write(json.dumps({"op": "end", "size": t["size"]}) + "\n")
    events, nruns, rejections, crashed = rt.validate_trace(tp)
    os.remove(tp)
    n = 0
    for r in rejections:
        op = r["event"].get("op", "")
        owner = "C04" if op.startswith("l_") or op == "end" else "C02"
        if owner == prop or (prop == "C11" and r["run_head"].get("p") == "unsafe"):
            n += 1
            g = r["run_head"].get("gen", {})
            rep.violation({"check": "gen-trace-rejected", "proto": r["run_head"].get("p"), "op": op, "unit": g.get("unit")},
                          {"generated_type": g, "rejected_at": r["line_in_run"], "event": r["event"], "run": r["run_lines"][:60]})
    for r in crashed:
        h = json.loads(r[0])
        if prop == "C02":
            rep.violation({"check": "gen-trace-encode-error", "proto": h.get("p"), "unit": h.get("gen", {}).get("unit")}, {"run_head": h})
    return {"emitted_code_call_traces": {"runs_validated": nruns, "events_validated": events, "rejections": len(rejections),
                                         "types_traced": len(meta), "calls_without_a_spec_action": unmodelled}}


def decode_traces(rep, prop, tier, seed):
    """Call-log validation of EMITTED decoders: decode() of generated types runs on a TracedR around the real reader; every
    call (value returned, bytes consumed, the reader's own length calls, skip, compact private state through the hook) must be
    explained by spec/ThriftTrace.tla at the position the model has reached in the input, and a successful decode must end
    exactly behind the value with a fresh compact context.  C02 owns the base cases, C08 the evolved ones on plain units,
    C13 the evolved ones on units built with keep_unknown_fields."""
    import random
    import thrift_rt as rt
    cases, res, units, cst = results(tier, seed)
    touches = argtype_touches(corpus_for(tier, seed))
    want = {"C02": ("base", ("", "k")), "C08": ("evo", ("",)), "C13": ("evo", ("k",)), "C11": ("evo", ("", "k")),
            "C12": ("base", ("",))}[prop]
    pool = [(ci, cs) for ci, cs in enumerate(cases) if cs["kind"] == want[0] and not (cs["kind"] == "evo" and cs["how"] == "retype" and cs["isunion"])]
    rnd = random.Random(seed + 78)
    rnd.shuffle(pool)
    take = pool[: (120 if tier == "quick" else 2500)]
    reqs, meta = [], []
    for ci, cs in take:
        for suffix in want[1]:
            if not (cs["okk"] if suffix else cs["ok"]):
                continue
            if suffix and (cs["isarg"] or cs["ty"] in touches[cs["sid"]]):
                continue        # the argument-type shortcut (known finding) takes the rest of the buffer wholesale
            path = gen.find_type(units, cs["sid"] + suffix, cs["ty"])
            if path is None:
                continue
            reqs.append({"id": len(reqs), "ty": path, "op": "trace_decode", "with_async": not suffix,
                         "inputs": {"bin": cs["bin"] + TRAILER, "binle": cs["binle"] + TRAILER, "compact": cs["cs"] + TRAILER,
                                    "unsafe": cs["bin"] + TRAILER}})
            meta.append({"schema": cs["sid"] + suffix, "type": cs["ty"], "kind": cs["kind"], "how": cs["how"], "unit": "keep" if suffix else "plain",
                         "lens": {"bin": len(cs["bin"]), "binle": len(cs["binle"]), "compact": len(cs["cs"]), "unsafe": len(cs["bin"])},
                         "inputs": reqs[-1]["inputs"]})
    out = gen.run_worker(reqs, tag="gdtrace")
    tp = os.path.join(c.OUT, f"gendtrace-{os.getpid()}.ndjson")
    runs = 0
    unmodelled = {}
    with open(tp, "w") as f:
        for i, m in enumerate(meta):
            r = out.get(i)
            if r is None or r.get("tool_error"):
                raise c.ToolError("worker: " + str(r))
            if not r.get("ok"):
                continue
            for proto, t in r["traces"].items():
                for u in t["unmodelled"]:
                    unmodelled[u] = unmodelled.get(u, 0) + 1
                runs += 1
                g = {k: v for k, v in m.items() if k != "inputs"}
                is_async = proto.startswith("a")
                proto = proto[1:] if is_async else proto
                g = dict(g, **{"async": is_async})
                f.write(json.dumps({"op": "reset", "run": runs, "dir": "r", "p": proto, "buf": "bytesmut", "err": "", "input": m["inputs"][proto],
                                    "gen": g, "decode_err": t["err"]}) + "\n")
                for ev in t["events"]:
                    f.write(json.dumps(ev) + "\n")
                if not t["err"]:
                    f.write(json.dumps({"op": "endr", "used": m["lens"][proto]}) + "\n")
    events, nruns, rejections, crashed = rt.validate_trace(tp)
    os.remove(tp)
    for r in rejections:
        g = r["run_head"].get("gen", {})
        if prop == "C11" and r["run_head"].get("p") != "unsafe":
            continue
        if prop == "C12" and not g.get("async"):
            continue
        rep.violation({"check": "gen-decode-trace-rejected", "proto": r["run_head"].get("p"), "op": r["event"].get("op", ""), "unit": g.get("unit"), "how": g.get("how")},
                      {"generated_type": g, "rejected_at": r["line_in_run"], "event": r["event"], "run": r["run_lines"][:80]})
    return {"emitted_decoder_call_traces": {"runs_validated": nruns, "events_validated": events, "rejections": len(rejections),
                                            "cases_traced": len(meta), "calls_without_a_spec_action": unmodelled}}


def async_eof(rep, tier, seed):
    """Emitted decode_async against a stream that ENDS EARLY: for generated types of the corpus, end of stream at every offset
    of a valid message, delivered under a seeded random schedule, must end in an error (C12: errors on early EOF), exactly as
    the in-memory decode of the same prefix does; and it must not have taken more than the prefix."""
    import random
    cases, res, units, cst = results(tier, seed)
    base = [cs for cs in cases if cs["kind"] == "base" and cs["how"] == "v1" and cs["ok"] and len(cs["bin"]) <= 160]
    rnd = random.Random(seed + 79)
    rnd.shuffle(base)
    take = base[: (400 if tier == "quick" else 4000)]
    reqs, meta = [], []
    for cs in take:
        path = find = gen.find_type(units, cs["sid"], cs["ty"])
        if path is None:
            continue
        for proto, key in (("bin", "bin"), ("binle", "binle"), ("compact", "cs")):
            enc = cs[key]
            for k in range(len(enc)):
                reqs.append({"id": len(reqs), "ty": path, "proto": proto, "mode": "async", "sched": f"rnd:{k * 7 + 3}", "op": "decode",
                             "input": enc, "eof_at": k})
                meta.append({"schema": cs["sid"], "type": cs["ty"], "proto": proto, "eof_at": k, "len": len(enc), "def": "union" if cs["isunion"] else "struct"})
    out = gen.run_worker(reqs, tag="aeof")
    n = 0
    for i, m in enumerate(meta):
        r = out.get(i)
        if r is None or r.get("tool_error"):
            raise c.ToolError("worker: " + str(r))
        bad = None
        if r.get("crash") or r.get("panic"):
            continue                      # C09's statement
        if r.get("ok"):
            bad = "eof-accepted"
        elif r.get("taken", 0) > m["eof_at"]:
            bad = "eof-overread"
        if bad:
            n += 1
            rep.violation({"check": bad, "site": "generated", "proto": m["proto"], "def": m["def"]},
                          dict(m, input=reqs[i]["input"], observed={k: v for k, v in r.items() if k != "alloc"}))
    return {"emitted_async_decoders_early_eof": {"runs": len(reqs), "types": len(take), "violations_before_known_filter": n}}
