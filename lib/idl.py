"""Shared machinery of the IDL front-end checks (C15, C16): TLC enumeration of documents and
layouts (spec/MCIdl.tla), the `drive idl` run, and the *naming* of disagreements (which choice point
was varied, between which token roles, at which token the parser stopped).  Nothing here decides
whether a parse is right: expected descriptors come from TLC (Exp(doc)), the comparison is done by
the harness; this module only turns a reported disagreement into a classification for
known_findings.json and builds the second-pass ("repaired") layouts."""
import json, os
import common as c

# keywords of the IDL: used only to recognise "identifier E was read as keyword K followed by the rest of E"
KEYWORDS = ["true", "false", "optional", "required", "include", "cpp_include", "namespace", "typedef", "const", "enum", "struct",
            "union", "exception", "service", "extends", "oneway", "void", "throws", "list", "set", "map", "string", "binary",
            "bool", "byte", "i8", "i16", "i32", "i64", "double", "uuid", "cpp_type"]
KW_SITE = {"true": "constvalue-bool", "false": "constvalue-bool", "optional": "field-attribute", "required": "field-attribute"}

RAND = {"quick": (100, 8), "thorough": (1500, 100)}


def cases(tier, seed):
    """TLC-enumerated documents x layouts (cached by specification text, tier and seed)."""
    rf, rl = RAND[tier]
    d = os.path.join(c.OUT, "cache")
    os.makedirs(d, exist_ok=True)
    pp = os.path.join(d, f"idl-params-{tier}-{seed}.json")
    with open(pp, "w") as f:
        f.write(json.dumps({"tier": tier, "seed": seed % 65521, "rand_full": rf, "rand_light": rl}) + "\n")
    return c.cached_tlc_file(f"idl-{tier}", "MCIdl", [tier, seed % 65521, rf, rl], {"VERIF_PARAMS": pp}, timeout=3000)


def load_cases(path):
    docs = {}
    with open(path) as f:
        for l in f:
            if l.strip():
                j = json.loads(l)
                docs[j["doc"]] = j
    return docs


def drive_bin():
    """The harness binary; VERIF_IDL_DRIVE names another binary with the same `idl` / `idl-faults`
    subcommands (harness/src/idl.rs compiled against a scratch copy of the parser crate): used for the
    sensitivity runs against mutated parsers and for trying proposed patches without touching /repo."""
    return os.environ.get("VERIF_IDL_DRIVE") or c.hbin("drive")


def drive_idl(cases_path, tag):
    out = os.path.join(c.OUT, f"idl_result-{tag}-{os.getpid()}.ndjson")
    rc, o, dt = c.run([drive_bin(), "idl", cases_path, out], timeout=1800)
    if rc != 0:
        raise c.ToolError("drive idl failed:\n" + o[-3000:])
    rows = c.read_ndjson(out)
    os.remove(out)
    summary = [r for r in rows if r["kind"] == "summary"][0]
    mism = [r for r in rows if r["kind"] == "mismatch"]
    return summary, mism, dt


# ----------------------------------------------------------------------------- naming
def gap_class(s):
    """Lexical class of a blank."""
    if s == "":
        return "none"
    if s.strip(" \t") == "":
        return "space"
    if s.strip() == "":
        return "newline"
    t = s.strip()
    if t.startswith("//") and "\n" not in t:
        return "line-comment"
    if t.startswith("#") and "\n" not in t:
        return "hash-comment"
    if t.startswith("/*") and t.endswith("*/") and t.count("*/") == 1:
        return "block-comment"
    return "mixed"


def neighbours(toks, pieces, j):
    """Roles of the printed tokens around blank j (1-based gap index: in front of token j).  A
    separator slot that is omitted in this layout prints nothing and is skipped."""
    n = len(toks)
    l = j - 1
    while l >= 1 and pieces[2 * l - 1] == "":
        l -= 1
    r = j
    while r <= n and pieces[2 * r - 1] == "":
        r += 1
    return (toks[l - 1]["r"] if l >= 1 else "bof"), (toks[r - 1]["r"] if r <= n else "eof")


def token_at(toks, pieces, off):
    """(token index (1-based) or None, inside?) of the printed token that contains byte offset `off`,
    or the next printed token behind it."""
    pos = 0
    for m, p in enumerate(pieces):
        ln = len(p.encode())
        if m % 2 == 1 and ln > 0:
            if pos <= off < pos + ln:
                return (m + 1) // 2, off > pos, off - pos
            if off < pos:
                return (m + 1) // 2, False, 0
        pos += ln
    return None, False, 0


def kw_prefix(word, cut=None):
    """Longest IDL keyword that is a proper prefix of `word` (ending exactly at `cut` if given)."""
    best = ""
    for k in KEYWORDS:
        if word.startswith(k) and len(word) > len(k) and (cut is None or cut == len(k)) and len(k) > len(best):
            best = k
    return best


def leaf_strings(v, acc):
    if isinstance(v, str):
        acc.append(v)
    elif isinstance(v, list):
        for x in v:
            leaf_strings(x, acc)
    elif isinstance(v, dict):
        for x in v.values():
            leaf_strings(x, acc)
    return acc


def norm_path(p):
    import re
    return re.sub(r"\[\d+\]", "", p).lstrip(".")


def variation(doc, lay):
    """What the layout varies against the default layout, as classification keys."""
    toks, pieces = doc["toks"], lay["p"]
    v = lay["vary"]
    if v == "gap":
        l, r = neighbours(toks, pieces, lay["at"])
        return {"vary": "gap", "left": l, "right": r, "gap": gap_class(pieces[2 * lay["at"] - 2])}
    if v == "sep":
        return {"vary": "sep", "slot": toks[lay["at"] - 1]["r"], "sep": pieces[2 * lay["at"] - 1] or "none"}
    if v == "quote":
        return {"vary": "quote", "slot": toks[lay["at"] - 1]["r"], "quote": pieces[2 * lay["at"] - 1][:1]}
    return {"vary": v}


def outcome_class(doc, lay, m):
    """Classification of one disagreement `m` reported by the harness for layout `lay` of `doc`."""
    toks, pieces = doc["toks"], lay["p"]
    det = m["detail"]
    cls = {"check": m["check"]}
    if m["check"] in ("parse-error", "remaining"):
        ti, inside, cut = token_at(toks, pieces, det["at"])
        if ti is None:
            cls["at"] = "eof"
        else:
            t = toks[ti - 1]
            cls["at"] = t["r"]
            if t["x"] and t["x"] != "fieldid":
                cls["lex"] = t["x"]
            # the parser stopped inside a word, exactly behind a keyword that the word begins with; or it
            # gave up at a constant-value path that begins with a keyword (the enclosing list / map / default
            # backtracks to the start of the element)
            if t["c"] == "w":
                k = kw_prefix(t["s"], cut) if inside else (kw_prefix(t["s"]) if t["r"].endswith(".cv.path") else "")
                if k:
                    cls.update({"kind": "keyword-prefix-split", "kw": k, "site": KW_SITE.get(k, "kw:" + k)})
        if "lex" not in cls:
            # a document with exactly one non-default lexical class (the number / literal products)
            xs = {t["x"] for t in toks if t["x"] and t["x"] != "fieldid"}
            if len(xs) == 1 and "kind" not in cls:
                cls["lex"] = xs.pop()
    elif m["check"] == "mismatch":
        diffs = det["diffs"]
        cls["path"] = norm_path(diffs[0]["path"]) if diffs else ""
        # identifier E expected, keyword K + rest of E (or something else entirely) read
        for d in diffs:
            w, g = d.get("want"), d.get("got")
            if isinstance(w, str):
                k = kw_prefix(w)
                if k and (g is None or g == w[len(k):]):
                    cls.update({"kind": "keyword-prefix-split", "kw": k, "site": KW_SITE.get(k, "kw:" + k), "path": norm_path(d["path"])})
                    break
        else:
            if diffs:
                for key in ("want", "got"):
                    v = diffs[0].get(key)
                    if isinstance(v, (str, bool, int)) and len(str(v)) < 40:
                        cls[key] = v
    elif m["check"] == "panic":
        cls["msg"] = det["msg"][:80]
    return cls


def deviations(doc, base, lay):
    """Choice points where `lay` differs from `base` (both piece lists of the same document), as
    hashable keys comparable across documents: blanks by (left role, right role, class), separator
    slots by (role, choice), literals by (role, quote)."""
    toks = doc["toks"]
    out = []
    for m, (a, b) in enumerate(zip(base, lay)):
        if a == b:
            continue
        if m % 2 == 0:
            l, r = neighbours(toks, lay, m // 2 + 1)
            out.append((m, ("gap", l, r, gap_class(b))))
        else:
            t = toks[(m - 1) // 2]
            if t["c"] == "s":
                out.append((m, ("sep", t["r"], b or "none")))
            else:
                out.append((m, ("quote", t["r"], b[:1])))
    return out
